package main

import (
	"bytes"
	"encoding/binary"
	"encoding/json"
	"fmt"
	"os"
	"sort"
	"strings"
	"time"

	"github.com/janelia-flyem/dvid/datastore"
	"github.com/janelia-flyem/dvid/datatype/annotation"
	"github.com/janelia-flyem/dvid/datatype/keyvalue"
	"github.com/janelia-flyem/dvid/datatype/labelmap"
	"github.com/janelia-flyem/dvid/dvid"
	"github.com/janelia-flyem/dvid/storage"
)

func init() { register("C06", runC06) }

// fakeData implements just enough of dvid.Data for storage.DataContext key construction.
type fakeData struct {
	dvid.Data
	id dvid.InstanceID
}

func (f *fakeData) InstanceID() dvid.InstanceID { return f.id }
func (f *fakeData) DataName() dvid.InstanceName { return "fake" }

var boundaryIDs = []uint32{0, 1, 2, 255, 256, 511, 0x1FF, 0x2FF, 65535, 65536, 0x0001FFFF, 0x12FF, 0x00FFFFFF, 0x01000000, 0x7FFFFFFF, 0x80000000, 0xFFFFFFFE, 0xFFFFFFFF}

func genID(r *Rng) uint32 {
	switch r.Intn(4) {
	case 0:
		return boundaryIDs[r.Intn(len(boundaryIDs))]
	case 1:
		return uint32(r.Intn(300))
	default:
		return uint32(r.U64())
	}
}

// genTKey draws a datum key from the real key classes of several datatypes, plus raw byte strings, plus
// prefix-related variants of a previous key.
func genTKey(r *Rng, prev []byte, c *Ctx) []byte {
	switch r.Intn(9) {
	case 0:
		c.Count("tkey.keyvalue")
		n := r.Intn(6)
		s := make([]byte, n)
		for i := range s {
			s[i] = "ab\x00z\xff"[r.Intn(5)]
		}
		tk, _ := keyvalue.NewTKey(string(s))
		return tk
	case 1:
		c.Count("tkey.labelmap.block")
		idx := dvid.IndexZYX(dvid.ChunkPoint3d{int32(r.U64()), int32(r.U64()), int32(r.U64())})
		return labelmap.NewBlockTKey(uint8(r.Intn(4)), &idx)
	case 2:
		c.Count("tkey.labelmap.index")
		return labelmap.NewLabelIndexTKey(r.U64() >> uint(r.Intn(64)))
	case 3:
		c.Count("tkey.annotation.tag")
		tk, _ := annotation.NewTagTKey(annotation.Tag(string(r.Bytes(r.Intn(4)))))
		return tk
	case 4:
		c.Count("tkey.annotation.block")
		return annotation.NewBlockTKey(dvid.ChunkPoint3d{int32(r.U64()), int32(r.U64()), int32(r.U64())})
	case 5:
		c.Count("tkey.annotation.label")
		return annotation.NewLabelTKey(r.U64())
	case 6:
		if prev != nil {
			c.Count("tkey.prefix-extension")
			return append(append([]byte{}, prev...), r.Bytes(1+r.Intn(3))...)
		}
		fallthrough
	case 7:
		c.Count("tkey.raw")
		return r.Bytes(r.Intn(12))
	default:
		c.Count("tkey.minmax")
		if r.Bool() {
			return storage.MinTKey(storage.TKeyClass(r.Intn(256)))
		}
		return storage.MaxTKey(storage.TKeyClass(r.Intn(256)))
	}
}

type ktuple struct {
	i, v, c uint32
	tk      []byte
	tomb    bool
}

func (t ktuple) build() []byte {
	ctx := storage.VerifDataContext(&fakeData{id: dvid.InstanceID(t.i)}, dvid.VersionID(t.v), dvid.ClientID(t.c))
	if t.tomb {
		return ctx.TombstoneKey(t.tk)
	}
	return ctx.ConstructKey(t.tk)
}

func ordStr(n int) string {
	switch {
	case n < 0:
		return "lt"
	case n > 0:
		return "gt"
	}
	return "eq"
}

func b01(b bool) string {
	if b {
		return "1"
	}
	return "0"
}

func isPrefix(a, b []byte) bool { return len(a) <= len(b) && bytes.Equal(a, b[:len(a)]) }

func runC06(c *Ctx) {
	c.Rule = "random+boundary (instance,version,client) ids over the full uint32 range x datum keys from keyvalue/labelmap/annotation key classes, raw and prefix-related byte strings; a case is non-trivial when it involves a boundary id, a prefix-related pair or a tombstone; distinct by canonical op text"
	n := 6000
	if c.Thorough {
		n = 120000
	}
	r := c.Rng
	defer laggingCounters(c, "C06")
	var prevTK []byte
	var prev *ktuple
	for it := 0; it < n; it++ {
		t := ktuple{genID(r), genID(r), genID(r), nil, r.Bool()}
		if prev != nil && r.Chance(0.5) { // related tuple: share some components so ordering cases beyond the first byte are hit
			t = *prev
			switch r.Intn(5) {
			case 0:
				t.v = genID(r)
			case 1:
				t.c = genID(r)
			case 2:
				t.tomb = !t.tomb
			case 3:
				t.i = genID(r)
			}
		}
		if prev == nil || !r.Chance(0.4) {
			t.tk = genTKey(r, prevTK, c)
		} else {
			t.tk = prev.tk
		}
		prevTK = t.tk
		key := t.build()
		m := "D"
		if t.tomb {
			m = "T"
		}
		op := fmt.Sprintf("key.make %d %d %d %s %s", t.i, t.v, t.c, hx(t.tk), m)
		c.AskCmp("storage.constructDataKey/TombstoneKey", op, "ok "+hx(key))
		// the package-level builder must agree with the context method
		if !t.tomb {
			k2 := storage.VerifConstructDataKey(dvid.InstanceID(t.i), dvid.VersionID(t.v), dvid.ClientID(t.c), t.tk)
			if !bytes.Equal(k2, key) {
				c.Report("O", "C06 constructDataKey!=ConstructKey", "context method and package builder disagree", op)
			}
		}
		// parse back through the real parsers
		tk2, err1 := storage.TKeyFromKey(key)
		i2, v2, c2, err2 := storage.DataKeyToLocalIDs(key)
		implParse := "err badkey"
		if err1 == nil && err2 == nil {
			implParse = fmt.Sprintf("ok %s %d %d %d %s %s", hx(tk2), i2, v2, c2, b01(storage.Key(key).IsTombstone()), b01(storage.Key(key).IsDataKey()))
		}
		c.AskCmp("storage.TKeyFromKey/DataKeyToLocalIDs", "key.parse "+hx(key), implParse)
		// oracle O (property itself, on the implementation's output): all components recovered
		if !(err1 == nil && err2 == nil && bytes.Equal(tk2, t.tk) && uint32(i2) == t.i && uint32(v2) == t.v && uint32(c2) == t.c && storage.Key(key).IsTombstone() == t.tomb) {
			c.Report("O", "C06 parse!=construct", "components not recovered from storage key", op+"\nparsed: "+implParse)
		}
		vfk, err := storage.VersionFromDataKey(key)
		if err != nil || uint32(vfk) != t.v {
			c.Report("O", "C06 VersionFromDataKey", "version not recovered", op)
		}
		// version brackets and ranges
		ctx := storage.VerifDataContext(&fakeData{id: dvid.InstanceID(t.i)}, dvid.VersionID(t.v), dvid.ClientID(t.c))
		mn, _ := ctx.MinVersionKey(t.tk)
		mx, _ := ctx.MaxVersionKey(t.tk)
		c.AskCmp("DataContext.MinVersionKey", fmt.Sprintf("key.minv %d %s", t.i, hx(t.tk)), "ok "+hx(mn))
		c.AskCmp("DataContext.MaxVersionKey", fmt.Sprintf("key.maxv %d %s", t.i, hx(t.tk)), "ok "+hx(mx))
		if !(bytes.Compare(mn, key) <= 0 && bytes.Compare(key, mx) <= 0) {
			c.Report("O", "C06 version-bracket", "key outside its own [MinVersionKey,MaxVersionKey]", op)
		}
		rmin, rmax := ctx.KeyRange()
		dmin, dmax := storage.DataInstanceKeyRange(dvid.InstanceID(t.i))
		c.AskCmp("DataContext.KeyRange", fmt.Sprintf("key.irange %d", t.i), "ok "+hx(rmin)+" "+hx(rmax))
		if !bytes.Equal(rmin, dmin) || !bytes.Equal(rmax, dmax) {
			c.Report("O", "C06 KeyRange!=DataInstanceKeyRange", "two instance range builders disagree", op)
		}
		if t.i != 0xFFFFFFFF && !(bytes.Compare(rmin, key) <= 0 && bytes.Compare(key, rmax) < 0) {
			c.Report("O", "C06 instance-range", "key outside its instance range", op)
		}
		// isolation at the range's ends: the smallest key of the next instance and the largest of the previous
		// one (same datum key) lie outside [min, max) of this instance
		if t.i != 0xFFFFFFFF {
			nctx := storage.VerifDataContext(&fakeData{id: dvid.InstanceID(t.i + 1)}, 0, 0)
			nk := nctx.ConstructKey(nil)
			nk2 := storage.VerifDataContext(&fakeData{id: dvid.InstanceID(t.i + 1)}, dvid.VersionID(t.v), dvid.ClientID(t.c)).ConstructKey(t.tk)
			for _, k := range [][]byte{nk, nk2} {
				if bytes.Compare(rmin, k) <= 0 && bytes.Compare(k, rmax) < 0 {
					c.Report("O", "C06 instance-range-leaks", fmt.Sprintf("a key of instance %d lies inside the key range of instance %d", t.i+1, t.i), op+"\nkey "+hx(k)+" range "+hx(rmin)+" "+hx(rmax))
				}
			}
		}
		if t.i != 0 {
			pk := storage.VerifDataContext(&fakeData{id: dvid.InstanceID(t.i - 1)}, 0xFFFFFFFF, 0xFFFFFFFF).ConstructKey(append(append([]byte{}, t.tk...), 0xFF, 0xFF))
			if bytes.Compare(rmin, pk) <= 0 && bytes.Compare(pk, rmax) < 0 {
				c.Report("O", "C06 instance-range-leaks", fmt.Sprintf("a key of instance %d lies inside the key range of instance %d", t.i-1, t.i), op+"\nkey "+hx(pk)+" range "+hx(rmin)+" "+hx(rmax))
			}
		}
		nontrivial := t.tomb
		for _, b := range boundaryIDs {
			if t.i == b || t.v == b || t.c == b {
				nontrivial = true
			}
		}
		// pairwise: ordering and injectivity against the previous tuple
		if prev != nil {
			pk := prev.build()
			cmp := bytes.Compare(pk, key)
			c.AskCmp("bytes.Compare", "key.cmp "+hx(pk)+" "+hx(key), "ok "+ordStr(cmp))
			same := prev.i == t.i && prev.v == t.v && prev.c == t.c && prev.tomb == t.tomb && bytes.Equal(prev.tk, t.tk)
			if (cmp == 0) != same {
				c.Report("O", "C06 injectivity", "distinct tuples share a storage key (or equal tuples differ)", op)
			}
			pre := isPrefix(prev.tk, t.tk) || isPrefix(t.tk, prev.tk)
			if pre && !bytes.Equal(prev.tk, t.tk) {
				c.Count("pair.prefix-related")
				nontrivial = true
			}
			// sort claim: instance, then datum key (when not prefix-related), then version, client, marker
			want := 0
			switch {
			case prev.i != t.i:
				want = cmpU32(prev.i, t.i)
				c.Count("pair.diff-instance")
			case !bytes.Equal(prev.tk, t.tk):
				if pre {
					want = 99 // not claimed
				} else {
					want = bytes.Compare(prev.tk, t.tk)
				}
				c.Count("pair.diff-tkey")
			case prev.v != t.v:
				want = cmpU32(prev.v, t.v)
				c.Count("pair.diff-version")
			case prev.c != t.c:
				want = cmpU32(prev.c, t.c)
				c.Count("pair.diff-client")
			case prev.tomb != t.tomb:
				want = -1
				if prev.tomb {
					want = 1
				}
				c.Count("pair.diff-marker")
			default:
				c.Count("pair.same")
			}
			if want != 99 && sign(cmp) != sign(want) {
				c.Report("O", "C06 sort-order", "storage keys do not sort by (instance, datum key, version, client, marker)",
					fmt.Sprintf("a=%s\nb=%s\ncmp=%d want=%d", hx(pk), hx(key), cmp, want))
			}
			// contiguity: a key of another datum never falls into this datum's version bracket unless prefix-related
			if !bytes.Equal(prev.tk, t.tk) && !pre || prev.i != t.i {
				if bytes.Compare(mn, pk) <= 0 && bytes.Compare(pk, mx) <= 0 {
					c.Report("O", "C06 contiguity", "a key of another datum lies inside a datum's version bracket", op)
				}
			}
		}
		c.Eval(op, nontrivial)
		tt := t
		prev = &tt
	}
	c06Isolation(c)
}

func cmpU32(a, b uint32) int {
	if a < b {
		return -1
	}
	if a > b {
		return 1
	}
	return 0
}
func sign(n int) int {
	if n < 0 {
		return -1
	}
	if n > 0 {
		return 1
	}
	return 0
}

// c06Isolation: histories of instance creation, writes, deletion and re-creation over the real server
// (Badger).  Oracle: no operation on one instance changes what another returns; a new instance is empty.
// c06RecreateWhileDeleting: an instance holding many keys is deleted (the key deletion runs in the background) and
// an instance of the same name is created again as early as the server allows; whatever the timing, the
// re-created instance must stay in the repo and keep what is written to it while and after its predecessor's keys
// are removed, and must not see any of the predecessor's keys.
func c06RecreateWhileDeleting(c *Ctx) {
	OpenServer()
	defer CloseServer()
	uuid := NewRepo()
	n := 20000
	if c.Thorough {
		n = 60000
	}
	if resp := NewInstance(uuid, "keyvalue", "big", nil); !resp.OK() {
		c.Report("H", "C06 cannot-create-instance", resp.String(), "big")
		return
	}
	d, err := datastore.GetDataByUUIDName(dvid.UUID(uuid), "big")
	if err != nil {
		return
	}
	kvd, ok := d.(interface {
		PutData(ctx storage.Context, keyStr string, value []byte) error
	})
	v, _ := datastore.VersionFromUUID(dvid.UUID(uuid))
	ctx := datastore.NewVersionedCtx(d, v)
	for i := 0; i < n; i++ {
		k := fmt.Sprintf("old%06d", i)
		if ok {
			kvd.PutData(ctx, k, []byte("old value"))
		} else {
			Post(fmt.Sprintf("node/%s/big/key/%s", uuid, k), []byte("old value"))
		}
	}
	if err := datastore.DeleteDataByName(dvid.UUID(uuid), "big", ""); err != nil {
		c.Report("H", "C06 cannot-delete-instance", err.Error(), "")
		return
	}
	refusals := 0
	created := false
	t0 := time.Now()
	for time.Since(t0) < 20*time.Second {
		if resp := NewInstance(uuid, "keyvalue", "big", nil); resp.OK() {
			created = true
			break
		}
		refusals++
		time.Sleep(20 * time.Millisecond)
	}
	c.Eval(fmt.Sprintf("recreate-while-deleting refusals=%d", refusals), true)
	c.Count("recreate-while-deleting")
	if !created {
		c.Report("O", "C06 recreate-refused", "an instance name cannot be used again 20 s after the instance holding it was deleted", fmt.Sprintf("%d keys, %d refusals", n, refusals))
		return
	}
	Post(fmt.Sprintf("node/%s/big/key/mine", uuid), []byte("new value"))
	hist := fmt.Sprintf("instance big with %d keys deleted; re-created after %d refused attempts (%.2fs); key mine written", n, refusals, time.Since(t0).Seconds())
	for i := 0; i < 40; i++ {
		g := Get(fmt.Sprintf("node/%s/big/key/mine", uuid))
		ks := Get(fmt.Sprintf("node/%s/big/keys", uuid))
		if !g.OK() || string(g.Body) != "new value" || strings.TrimSpace(string(ks.Body)) != `["mine"]` {
			c.Report("O", "C06 recreated-instance-disturbed", "an instance re-created under the name of a deleted one loses its place in the repo or its data, or shows keys of its predecessor",
				fmt.Sprintf("%s\n%.2fs later: GET key/mine -> %s ; GET keys -> %s", hist, float64(i)*0.1, g, trunc(string(ks.Body))))
			return
		}
		time.Sleep(100 * time.Millisecond)
	}
}

// c06IndexCache: two labelmap instances of one repo hold the same label ids at the same version, on a server
// whose label-index cache is switched on ([cache] labelmap in the configuration); sizes, sparse volumes and
// indices of a label in one instance never show the other instance's voxels
func c06IndexCache(c *Ctx) {
	dir := scratchDir("c06c")
	defer os.RemoveAll(dir)
	ch, msg := StartChild(dir, []string{"VERIF_LM_CACHE=1"})
	if ch == nil {
		c.Report("H", "C06 child-start", msg, "")
		return
	}
	defer ch.Kill()
	resp, _ := ch.HTTP("POST", "repos", []byte(`{"alias":"c","description":"d"}`))
	root := jsonField(resp.Body, "root")
	for _, n := range []string{"segA", "segB"} {
		if r, _ := ch.HTTP("POST", "repo/"+root+"/instance", []byte(`{"typename":"labelmap","dataname":"`+n+`","BlockSize":"32,32,32"}`)); !r.OK() {
			c.Report("H", "C06 instance", r.String(), "")
			return
		}
	}
	write := func(inst string, bx int, label uint64, nvox int) {
		blk := make([]byte, 32*32*32*8)
		for i := 0; i < nvox; i++ {
			binary.LittleEndian.PutUint64(blk[i*8:], label)
		}
		ch.HTTP("POST", fmt.Sprintf("node/%s/%s/raw/0_1_2/32_32_32/%d_0_0", root, inst, 32*bx), blk)
		ch.AskT("SETTLE "+root+" "+inst, 20*time.Second)
	}
	size := func(inst string, label uint64) string {
		r, _ := ch.HTTP("GET", fmt.Sprintf("node/%s/%s/size/%d", root, inst, label), nil)
		return fmt.Sprintf("%d %s", r.Code, strings.TrimSpace(string(r.Body)))
	}
	var hist []string
	check := func(when string, want map[string]string) bool {
		for _, inst := range []string{"segA", "segB", "segA"} {
			got := size(inst, 7)
			c.Eval("index cache "+when+" "+inst, true)
			if !strings.Contains(got, want[inst]) {
				c.Report("O", "C06 label-index-leaks-between-instances", "the size of a label in one labelmap instance reflects voxels of another instance (label-index cache switched on)",
					fmt.Sprintf("%s\nGET %s/size/7 -> %s, expected to contain %q\nhistory:\n  %s", when, inst, got, want[inst], strings.Join(hist, "\n  ")))
				return false
			}
		}
		return true
	}
	write("segA", 0, 7, 32768)
	hist = append(hist, "segA: block (0,0,0) all label 7 (32768 voxels)")
	if !check("after the write to segA", map[string]string{"segA": "32768", "segB": "404"}) {
		return
	}
	write("segB", 1, 7, 4096)
	hist = append(hist, "segB: block (1,0,0) 4096 voxels of label 7")
	if !check("after the write to segB", map[string]string{"segA": "32768", "segB": "4096"}) {
		return
	}
	body, _ := json.Marshal([]uint64{7, 9})
	write("segB", 2, 9, 100)
	ch.HTTP("POST", "node/"+root+"/segB/merge", body)
	ch.AskT("SETTLE "+root+" segB", 20*time.Second)
	hist = append(hist, "segB: 100 voxels of label 9, merge [7 9]")
	check("after a merge in segB", map[string]string{"segA": "32768", "segB": "4196"})
	c.Count("index-cache isolation")
}

func c06Isolation(c *Ctx) {
	c06RecreateWhileDeleting(c)
	c06IndexCache(c)
	OpenServer()
	defer CloseServer()
	r := c.Rng.Fork()
	rounds := 3
	if c.Thorough {
		rounds = 12
	}
	for round := 0; round < rounds; round++ {
		uuid := NewRepo()
		type inst struct {
			name string
			kv   map[string]string
			live bool
		}
		var insts []*inst
		newInst := func() *inst {
			in := &inst{name: fmt.Sprintf("kv%d_%d", round, len(insts)), kv: map[string]string{}, live: true}
			if resp := NewInstance(uuid, "keyvalue", in.name, nil); !resp.OK() {
				c.Report("H", "C06 cannot-create-instance", resp.String(), in.name)
			}
			insts = append(insts, in)
			return in
		}
		snapshot := func(in *inst) string {
			resp := Get(fmt.Sprintf("node/%s/%s/keys", uuid, in.name))
			var parts []string
			parts = append(parts, strings.TrimSpace(string(resp.Body)))
			ks := make([]string, 0, len(in.kv))
			for k := range in.kv {
				ks = append(ks, k)
			}
			sort.Strings(ks)
			for _, k := range ks {
				g := Get(fmt.Sprintf("node/%s/%s/key/%s", uuid, in.name, k))
				parts = append(parts, k+"="+string(g.Body))
			}
			return strings.Join(parts, ";")
		}
		expect := func(in *inst) string {
			ks := make([]string, 0, len(in.kv))
			for k := range in.kv {
				ks = append(ks, k)
			}
			sort.Strings(ks)
			var q []string
			for _, k := range ks {
				q = append(q, `"`+k+`"`)
			}
			parts := []string{"[" + strings.Join(q, ",") + "]"}
			for _, k := range ks {
				parts = append(parts, k+"="+in.kv[k])
			}
			return strings.Join(parts, ";")
		}
		newInst()
		newInst()
		var hist []string
		steps := 25
		for s := 0; s < steps; s++ {
			var live []*inst
			for _, in := range insts {
				if in.live {
					live = append(live, in)
				}
			}
			switch k := r.Intn(10); {
			case k < 6 && len(live) > 0:
				in := live[r.Intn(len(live))]
				key := fmt.Sprintf("k%d", r.Intn(6))
				val := fmt.Sprintf("v%d", r.Intn(1000))
				Post(fmt.Sprintf("node/%s/%s/key/%s", uuid, in.name, key), []byte(val))
				in.kv[key] = val
				hist = append(hist, "put "+in.name+" "+key+" "+val)
			case k < 7 && len(live) > 0:
				in := live[r.Intn(len(live))]
				key := fmt.Sprintf("k%d", r.Intn(6))
				Delete(fmt.Sprintf("node/%s/%s/key/%s", uuid, in.name, key))
				delete(in.kv, key)
				hist = append(hist, "del "+in.name+" "+key)
			case k < 8 && len(live) > 1:
				in := live[r.Intn(len(live))]
				// instance deletion is RPC-only (`repo <uuid> delete <name>`); call what the RPC handler calls
				if err := datastore.DeleteDataByName(dvid.UUID(uuid), dvid.InstanceName(in.name), ""); err != nil {
					c.Report("H", "C06 cannot-delete-instance", err.Error(), in.name)
				}
				in.live = false
				// deletion of instance data is asynchronous in DVID; wait until the delete is done
				waitInstanceDeleted(uuid, in.name)
				hist = append(hist, "delete-instance "+in.name)
				c.Count("hist.delete-instance")
			default:
				in := newInst()
				hist = append(hist, "new-instance "+in.name)
				c.Count("hist.new-instance")
				if got := snapshot(in); got != "[]" {
					c.Report("O", "C06 fresh-instance-not-empty", "a newly created instance is not empty", strings.Join(hist, "\n")+"\ngot: "+got)
				}
			}
			// every live instance reads exactly what was written to it
			for _, in := range insts {
				if !in.live {
					continue
				}
				if got, want := snapshot(in), expect(in); got != want {
					c.Report("O", "C06 instance-isolation", "an operation on one instance changed another's content",
						strings.Join(hist, "\n")+"\ninstance "+in.name+"\ngot:  "+got+"\nwant: "+want)
				}
			}
			c.Eval("iso:"+strings.Join(hist, "|"), true)
		}
	}
}
