package main

import (
	"fmt"
	"sort"
	"strings"

	pb "google.golang.org/protobuf/proto"

	"github.com/janelia-flyem/dvid/datatype/common/proto"
)

// canonLabelIndex decodes a serialized label index and prints it with sorted blocks and supervoxels.
func canonLabelIndex(b []byte) []byte {
	var idx proto.LabelIndex
	if err := pb.Unmarshal(b, &idx); err != nil {
		return b
	}
	var blocks []uint64
	for k := range idx.Blocks {
		blocks = append(blocks, k)
	}
	sort.Slice(blocks, func(i, j int) bool { return blocks[i] < blocks[j] })
	var sb strings.Builder
	fmt.Fprintf(&sb, "label=%d", idx.Label)
	for _, k := range blocks {
		svc := idx.Blocks[k]
		var svs []uint64
		for sv := range svc.Counts {
			svs = append(svs, sv)
		}
		sort.Slice(svs, func(i, j int) bool { return svs[i] < svs[j] })
		fmt.Fprintf(&sb, " blk%d{", k)
		for _, sv := range svs {
			fmt.Fprintf(&sb, "%d:%d ", sv, svc.Counts[sv])
		}
		sb.WriteString("}")
	}
	return []byte(sb.String())
}
