package main

import (
	"bufio"
	"bytes"
	"compress/gzip"
	"encoding/binary"
	"encoding/hex"
	"fmt"
	"hash/crc32"
	"image"
	"image/color"
	"image/jpeg"
	"io"
	"os"
	"os/exec"
	"strings"
	"time"

	"github.com/golang/snappy"
	lz4 "github.com/janelia-flyem/go/golz4-updated"
	"github.com/janelia-flyem/dvid/dvid"
)

func init() {
	register("C15", runC15)
	childModes["deser"] = childDeser
}

func mkCompression(format, level int) dvid.Compression {
	var c dvid.Compression
	c.UnmarshalBinary([]byte{byte(format), byte(int8(level))})
	return c
}

// libResult: what the decompression library itself returns for this compressed payload (the model takes
// the libraries as parameters; this is the parameter value for this input).
func libResult(format int, cdata []byte) string {
	switch format {
	case 1:
		d, err := snappy.Decode(nil, cdata)
		if err != nil {
			return "E"
		}
		return "D" + hx(d)
	case 4:
		if len(cdata) < 4 {
			return "-"
		}
		n := binary.LittleEndian.Uint32(cdata[0:4])
		if n == 0 {
			return "-"
		}
		if n > 1<<16 {
			return "SKIP" // do not build huge oracle lines; X is skipped for this input (O still runs)
		}
		d := make([]byte, n)
		if err := lz4.Uncompress(cdata[4:], d); err != nil {
			return "E"
		}
		return "D" + hx(d)
	case 2:
		r, err := gzip.NewReader(bytes.NewReader(cdata))
		if err != nil {
			return "E"
		}
		var b bytes.Buffer
		if _, err := io.Copy(&b, r); err != nil {
			return "E"
		}
		if err := r.Close(); err != nil {
			return "E"
		}
		return "D" + hx(b.Bytes())
	case 5:
		img, err := jpeg.Decode(bytes.NewReader(cdata))
		if err != nil {
			return "E"
		}
		g, ok := img.(*image.Gray)
		if !ok {
			return "N"
		}
		return "D" + hx(g.Pix)
	}
	return "-"
}

// deserSafe runs the real DeserializeData with panic recovery and canonicalises the outcome.
func deserSafe(s []byte, uncompress bool) (out string) {
	defer func() {
		if e := recover(); e != nil {
			out = "panic"
		}
	}()
	d, f, err := dvid.DeserializeData(s, uncompress)
	if err != nil {
		return "err"
	}
	return fmt.Sprintf("ok %d %s", f, hx(d))
}

func genPayload(r *Rng, c *Ctx, max int) []byte {
	switch r.Intn(6) {
	case 0:
		c.Count("payload.1byte")
		return r.Bytes(1)
	case 1:
		c.Count("payload.random-small")
		return r.Bytes(1 + r.Intn(40))
	case 2:
		c.Count("payload.compressible")
		return bytes.Repeat(r.Bytes(1+r.Intn(3)), 1+r.Intn(max/3+1))
	case 3:
		c.Count("payload.incompressible")
		return r.Bytes(1 + r.Intn(max))
	case 4:
		c.Count("payload.zeros")
		return make([]byte, 1+r.Intn(max))
	default:
		c.Count("payload.text")
		return []byte(strings.Repeat("dvid label ", 1+r.Intn(max/11+1)))
	}
}

var losslessFormats = []struct{ f, lvl int }{{0, -1}, {1, -1}, {4, -1}, {2, -1}, {2, 1}, {2, 9}}

func runC15(c *Ctx) {
	c.Rule = "payloads (1 byte, random, compressible, incompressible, zeros, text; up to 64 KiB quick / 4 MiB thorough) x {none,snappy,lz4,gzip -1/1/9} x {no checksum,CRC32} x uncompress flag; every single-bit flip of payload bytes of small values and sampled flips of larger ones; every truncation; arbitrary and mutated byte strings in a child process. non-trivial = compressed or checksummed or corrupted input; distinct by (format,checksum,payload hash,mutation)"
	r := c.Rng
	// A. CRC-32 tie to hash/crc32 (all 256 single bytes => every table entry, then random strings)
	for b := 0; b < 256; b++ {
		d := []byte{byte(b)}
		c.AskCmp("hash/crc32.ChecksumIEEE", "crc "+hx(d), fmt.Sprintf("ok %08x", crc32.ChecksumIEEE(d)))
		c.Eval("crc "+hx(d), true)
	}
	ncrc := 400
	if c.Thorough {
		ncrc = 5000
	}
	for i := 0; i < ncrc; i++ {
		d := r.Bytes(r.Intn(200))
		c.AskCmp("hash/crc32.ChecksumIEEE", "crc "+hx(d), fmt.Sprintf("ok %08x", crc32.ChecksumIEEE(d)))
		c.Eval("crc "+hx(d), len(d) > 0)
	}
	// B. format byte, exhaustive
	for f := 0; f < 8; f++ {
		for k := 0; k < 4; k++ {
			b := dvid.EncodeSerializationFormat(mkCompression(f, -1), dvid.Checksum(k))
			c.AskCmp("dvid.EncodeSerializationFormat", fmt.Sprintf("fmt.enc %d %d", f, k), fmt.Sprintf("ok %d", b))
			f2, k2 := dvid.DecodeSerializationFormat(b)
			if int(f2) != f || int(k2) != k {
				c.Report("O", "C15 format-byte-roundtrip", "format byte does not round-trip", fmt.Sprintf("f=%d c=%d byte=%d decoded=%d,%d", f, k, b, f2, k2))
			}
			c.Eval(fmt.Sprintf("fmt %d %d", f, k), true)
		}
	}
	for b := 0; b < 256; b++ {
		f, k := dvid.DecodeSerializationFormat(dvid.SerializationFormat(b))
		c.AskCmp("dvid.DecodeSerializationFormat", fmt.Sprintf("fmt.dec %d", b), fmt.Sprintf("ok %d %d", f, k))
	}
	// C. round trips + envelope correspondence + corruption
	n := 150
	max := 1 << 12
	if c.Thorough {
		n = 1500
		max = 1 << 16
	}
	for i := 0; i < n; i++ {
		data := genPayload(r, c, max)
		if i == 0 {
			data = []byte{} // the empty value: serialises to the empty string in every format
			c.Count("payload.empty")
		} else if i == 1 {
			data = nil
			c.Count("payload.nil")
		}
		if c.Thorough && i%200 == 0 && i > 1 {
			data = r.Bytes(1 << 22) // multi-megabyte
			c.Count("payload.4MiB")
		}
		for _, lf := range losslessFormats {
			for _, ck := range []int{0, 1} {
				comp := mkCompression(lf.f, lf.lvl)
				s, err := dvid.SerializeData(data, comp, dvid.Checksum(ck))
				tag := fmt.Sprintf("fmt=%d lvl=%d cksum=%d len=%d", lf.f, lf.lvl, ck, len(data))
				if err != nil {
					c.Report("O", "C15 serialize-error", "SerializeData failed on a legal input", tag+" "+err.Error())
					continue
				}
				c.Count(fmt.Sprintf("format.%d.cksum.%d", lf.f, ck))
				// O: round trip with decompression
				wantRT := fmt.Sprintf("ok %d %s", lf.f, hx(data))
				if len(data) == 0 {
					wantRT = "ok 0 -" // the empty value is stored as the empty string, whose format byte is absent
				}
				if got := deserSafe(s, true); got != wantRT {
					c.Report("O", "C15 roundtrip", "deserialize(serialize(x)) != x", tag+"\ndata="+hx(clip(data))+"\ngot="+clipS(got))
				}
				// X: envelope without decompression; and the stored bytes = SerializePrecompressedData(compressed)
				raw, _, err := dvid.DeserializeData(s, false)
				if err != nil {
					c.Report("O", "C15 roundtrip-raw", "deserialize without decompression failed", tag)
					continue
				}
				if len(s) <= 1<<13 {
					c.AskCmp("dvid.SerializePrecompressedData", fmt.Sprintf("ser.pre %d %d %s", lf.f, ck, hx(raw)), "ok "+hx(s))
					c.AskCmp("dvid.DeserializeData(raw)", fmt.Sprintf("deser 0 %s -", hx(s)), deserSafe(s, false))
					if lib := libResult(lf.f, raw); lib != "SKIP" {
						c.AskCmp("dvid.DeserializeData(uncompress)", fmt.Sprintf("deser 1 %s %s", hx(s), lib), deserSafe(s, true))
					}
				}
				c.Eval(fmt.Sprintf("rt %d %d %d %x", lf.f, lf.lvl, ck, crc32.ChecksumIEEE(data)), lf.f != 0 || ck != 0)
				// D0. gzip carries its own checksum instead of DVID's: with decompression requested a corrupted or
				// truncated stored value must be reported as an error or still yield the original bytes (a flip
				// in an unused gzip header field) — never other data
				if lf.f == 2 && len(s) > 5 {
					want := deserSafe(s, true)
					limit := 48
					if c.Thorough {
						limit = 300
					}
					positions := (len(s) - 5) * 8
					for p := 0; p < positions; p++ {
						if positions > limit && r.Intn(positions) >= limit {
							continue
						}
						m := append([]byte{}, s...)
						m[5+p/8] ^= 1 << uint(p%8)
						if got := deserSafe(m, true); got != "err" && got != want {
							c.Report("O", "C15 gzip-corruption-returned-as-data", "a corrupted gzip-serialised value was returned as (other) data instead of being reported as an error",
								tag+"\nserialized="+hx(clip(s))+fmt.Sprintf("\nflip bit %d of byte %d after the header", p%8, p/8)+"\ngot="+clipS(got)+"\noriginal="+clipS(want))
							break
						}
					}
					for k := 0; k < 6; k++ {
						cut := 6 + r.Intn(len(s)-5)
						if cut >= len(s) {
							continue
						}
						if got := deserSafe(s[:cut], true); got != "err" && got != want {
							c.Report("O", "C15 gzip-truncation-returned-as-data", "a truncated gzip-serialised value was returned as data instead of being reported as an error",
								tag+"\nserialized="+hx(clip(s))+fmt.Sprintf("\ntruncated to %d of %d bytes", cut, len(s))+"\ngot="+clipS(got))
							break
						}
					}
					c.Count("gzip-corruption-cases")
				}
				// D. corruption of payload bytes with CRC32 (gzip drops the DVID checksum: see D0)
				if ck == 1 && lf.f != 2 {
					hdr := 5
					flips := 0
					limit := 64
					if c.Thorough {
						limit = 400
					}
					positions := (len(s) - hdr) * 8
					for p := 0; p < positions; p++ {
						if positions > limit && r.Intn(positions) >= limit {
							continue
						}
						m := append([]byte{}, s...)
						m[hdr+p/8] ^= 1 << uint(p%8)
						got := deserSafe(m, true)
						if got != "err" {
							c.Report("O", "C15 bitflip-accepted", "a single-bit corruption of the payload was not reported as an error",
								tag+"\nserialized="+hx(clip(s))+fmt.Sprintf("\nflip bit %d of payload byte %d", p%8, p/8)+"\ngot="+clipS(got))
						}
						if got0 := deserSafe(m, false); got0 != "err" {
							c.Report("O", "C15 bitflip-accepted uncompress=false", "a single-bit corruption of the payload was not reported as an error when no decompression was requested",
								tag+"\nserialized="+hx(clip(s))+fmt.Sprintf("\nflip bit %d of payload byte %d; DeserializeData(corrupted, false)", p%8, p/8)+"\ngot="+clipS(got0))
						}
						flips++
						if len(m) <= 600 {
							c.AskCmp("dvid.DeserializeData(corrupt)", fmt.Sprintf("deser 1 %s %s", hx(m), "E"), got)
						}
					}
					// single-byte replacement
					for k := 0; k < 8 && len(s) > hdr; k++ {
						m := append([]byte{}, s...)
						p := hdr + r.Intn(len(s)-hdr)
						m[p] ^= byte(1 + r.Intn(255))
						for _, u := range []bool{true, false} {
							if got := deserSafe(m, u); got != "err" {
								c.Report("O", fmt.Sprintf("C15 byteflip-accepted uncompress=%v", u), "a single-byte corruption of the payload was not reported as an error", tag+"\n"+hx(clip(m)))
							}
						}
						flips++
					}
					c.CountN("corrupt.bit+byte", flips)
					c.Evals += flips
				}
				// truncations: never a panic (an error or a shorter value; see DESIGN C15 Limits)
				if len(s) <= 300 || i%25 == 0 {
					step := 1
					if len(s) > 300 {
						step = len(s) / 97
					}
					for cut := 0; cut < len(s); cut += step {
						got := deserSafe(s[:cut:cut], true)
						if got == "panic" {
							c.Report("O", fmt.Sprintf("C15 panic fmt=%d truncated", lf.f), "DeserializeData panics on a truncated serialisation", tag+"\ninput="+hx(clip(s[:cut])))
						} else if strings.HasPrefix(got, "ok") && cut >= 5 && ck == 1 && lf.f != 2 {
							c.Count("truncation.accepted(!)")
						}
						c.Count("truncation." + strings.SplitN(got, " ", 2)[0])
					}
				}
			}
		}
	}
	// E. totality on arbitrary / mutated inputs, in a child process (cgo lz4 may fault)
	tE := time.Now()
	c15Totality(c)
	c.Extra["totality_s"] = time.Since(tE).Seconds()
}

func clip(b []byte) []byte {
	if len(b) > 256 {
		return b[:256]
	}
	return b
}
func clipS(s string) string {
	if len(s) > 300 {
		return s[:300] + "…"
	}
	return s
}

// c15Totality generates hostile inputs, runs them in a child (one line in, one line out) and compares
// each outcome with the model; "panic" (or a dead child) on any input is an O failure.
func c15Totality(c *Ctx) {
	r := c.Rng.Fork()
	n := 3000
	if c.Thorough {
		n = 40000
	}
	var inputs [][]byte
	// corpus: shortest crashers first
	inputs = append(inputs, []byte{0x80, 1}, []byte{0x80}, []byte{0x88, 1, 2, 3, 4}, []byte{0x88, 0xd2, 0x02, 0xef, 0x8d, 1}, []byte{0xa0, 1, 2})
	inputs = append(inputs, colorJPEG(0xa0), colorJPEG(0xa8))
	for i := 0; i < n; i++ {
		switch r.Intn(4) {
		case 0: // arbitrary bytes
			b := r.Bytes(1 + r.Intn(24))
			capLZ4Len(b)
			inputs = append(inputs, b)
			c.Count("hostile.arbitrary")
		case 1: // valid header for each format, short/garbage body
			f := []int{0, 1, 2, 4, 5, 3, 6, 7}[r.Intn(8)]
			k := r.Intn(4)
			b := []byte{byte(f<<5 | k<<3)}
			body := r.Bytes(r.Intn(12))
			if k == 1 && r.Bool() { // correct CRC so that the body reaches the decompressor
				var crc [4]byte
				binary.LittleEndian.PutUint32(crc[:], crc32.ChecksumIEEE(body))
				b = append(b, crc[:]...)
			}
			if k == 1 && len(b) == 1 && f == 4 {
				k = 0
				b[0] = byte(f << 5)
			}
			b = append(b, body...)
			capLZ4Len(b)
			inputs = append(inputs, b)
			c.Count(fmt.Sprintf("hostile.header.fmt%d", f))
		default: // mutate a valid serialisation
			lf := losslessFormats[r.Intn(len(losslessFormats))]
			data := r.Bytes(1 + r.Intn(64))
			if r.Bool() {
				data = bytes.Repeat([]byte{byte(r.Intn(4))}, 1+r.Intn(200))
			}
			s, _ := dvid.SerializeData(data, mkCompression(lf.f, lf.lvl), dvid.Checksum(r.Intn(2)))
			m := append([]byte{}, s...)
			switch r.Intn(4) {
			case 0:
				m = m[:r.Intn(len(m)+1)]
			case 1:
				if len(m) > 0 {
					m[r.Intn(len(m))] ^= byte(1 << uint(r.Intn(8)))
				}
			case 2: // inflate the lz4 length field / first body bytes
				if len(m) > 5 {
					// inflated length fields are kept below 16 MiB: DeserializeData allocates origSize bytes before
					// decompressing, and multi-GiB allocations only make the run slow (noted in DESIGN C15 Limits)
					binary.LittleEndian.PutUint32(m[1:5], uint32(r.U64())>>uint(8+r.Intn(16)))
				}
			default:
				m = append(m, r.Bytes(1+r.Intn(8))...)
			}
			capLZ4Len(m)
			inputs = append(inputs, m)
			c.Count("hostile.mutated-valid")
		}
	}
	outs, died := runChildLines("deser", inputs)
	for i, in := range inputs {
		if i >= len(outs) {
			break
		}
		parts := strings.SplitN(outs[i], "|", 3) // out(u=1) | out(u=0) | lib
		if len(parts) != 3 {
			c.Report("H", "C15 child-protocol", "bad child line", outs[i])
			continue
		}
		for ui, u := range []string{"1", "0"} {
			got := parts[ui]
			if got == "panic" {
				f := int(in[0] >> 5)
				c.Report("O", fmt.Sprintf("C15 panic fmt=%d", f), "DeserializeData panics on a malformed input", fmt.Sprintf("input=%s uncompress=%s\nDeserializeData([]byte{%s}, %v) panics", hx(in), u, goBytes(in), u == "1"))
			}
			lib := parts[2]
			if u == "0" {
				lib = "-"
			}
			if len(lib) > 1<<17 {
				lib = "SKIP"
			}
			if !(lib == "SKIP" && u == "1") {
				c.AskCmp("dvid.DeserializeData(hostile)", fmt.Sprintf("deser %s %s %s", u, hx(in), lib), got)
			}
		}
		c.Eval("hostile "+hx(in), true)
	}
	if died >= 0 {
		c.Report("O", "C15 process-crash", "DeserializeData took the process down", "input="+hx(inputs[died]))
	}
}

// capLZ4Len clears the top byte of an LZ4 length prefix (see the note on inflated length fields).
func capLZ4Len(b []byte) {
	if len(b) == 0 || b[0]>>5 != 4 {
		return
	}
	off := 1
	if (b[0]>>3)&3 == 1 {
		off = 5
	}
	if len(b) >= off+4 {
		b[off+3] = 0
	}
}

func goBytes(b []byte) string {
	var p []string
	for _, x := range b {
		p = append(p, fmt.Sprintf("0x%02x", x))
	}
	return strings.Join(p, ", ")
}

func colorJPEG(hdr byte) []byte {
	img := image.NewRGBA(image.Rect(0, 0, 8, 8))
	for i := 0; i < 8; i++ {
		img.Set(i, i, color.RGBA{200, 10, 50, 255})
	}
	var b bytes.Buffer
	jpeg.Encode(&b, img, nil)
	out := []byte{hdr}
	if (hdr>>3)&3 == 1 {
		var crc [4]byte
		binary.LittleEndian.PutUint32(crc[:], crc32.ChecksumIEEE(b.Bytes()))
		out = append(out, crc[:]...)
	}
	return append(out, b.Bytes()...)
}

// runChildLines feeds hex lines to a child copy of this binary; returns the output lines and the index
// of the input on which the child died (-1 if it survived).
func runChildLines(mode string, inputs [][]byte) ([]string, int) {
	var outs []string
	start := 0
	for start < len(inputs) {
		cmd := exec.Command(os.Args[0], "-child", mode)
		cmd.Env = append(os.Environ(), "GOMEMLIMIT=4GiB")
		in, _ := cmd.StdinPipe()
		out, _ := cmd.StdoutPipe()
		if err := cmd.Start(); err != nil {
			return outs, start
		}
		rd := bufio.NewReaderSize(out, 1<<22)
		go func(from int) {
			w := bufio.NewWriter(in)
			for _, b := range inputs[from:] {
				w.WriteString(hex.EncodeToString(b) + "\n")
			}
			w.Flush()
			in.Close()
		}(start)
		done := make(chan struct{})
		go func() {
			select {
			case <-done:
			case <-time.After(10 * time.Minute):
				cmd.Process.Kill()
			}
		}()
		for {
			ln, err := rd.ReadString('\n')
			if err != nil {
				break
			}
			outs = append(outs, strings.TrimRight(ln, "\n"))
		}
		close(done)
		err := cmd.Wait()
		if err != nil && len(outs) < len(inputs) {
			return outs, len(outs)
		}
		start = len(outs)
		if start >= len(inputs) {
			break
		}
		return outs, start // child exited cleanly but early: treat as death at that input
	}
	return outs, -1
}

func childDeser(args []string) {
	quietLogs()
	rd := bufio.NewReaderSize(os.Stdin, 1<<22)
	w := bufio.NewWriter(os.Stdout)
	for {
		ln, err := rd.ReadString('\n')
		ln = strings.TrimSpace(ln)
		if ln != "" || err == nil {
			b, _ := hex.DecodeString(ln)
			lib := "-"
			if len(b) > 0 {
				f := int(b[0] >> 5)
				k := int(b[0]>>3) & 3
				body := b[1:]
				if k == 1 && len(body) >= 4 {
					body = body[4:]
				} else if k == 1 {
					body = nil
				}
				if k <= 1 && body != nil {
					lib = func() (s string) {
						defer func() {
							if recover() != nil {
								s = "E"
							}
						}()
						return libResult(f, body)
					}()
				}
			}
			fmt.Fprintf(w, "%s|%s|%s\n", deserSafe(b, true), deserSafe(b, false), lib)
			w.Flush()
		}
		if err != nil {
			return
		}
	}
}
