package main

import (
	"bytes"
	"encoding/binary"
	"encoding/json"
	"fmt"
	"github.com/janelia-flyem/dvid/datastore"
	"github.com/janelia-flyem/dvid/datatype/labelmap"
	"io"
	"sort"
	"strings"
	"sync"
	"time"

	"github.com/janelia-flyem/dvid/datatype/common/downres"
	"github.com/janelia-flyem/dvid/dvid"
)

func init() { register("C14", runC14) }

const (
	c14B   = 32 // block size
	c14Lo  = -2 // lowest block coordinate of the observed region
	c14NB  = 4  // blocks per dimension in the region
	c14N   = c14B * c14NB
	c14Off = c14Lo * c14B // voxel offset of the region
)

type pyrVer struct {
	uuid   string
	v      int
	locked bool
	vox    []uint64 // level 0 supervoxels of the region, (z*N+y)*N+x
}

func (p *pyrVer) at(x, y, z int) uint64 { return p.vox[(z*c14N+y)*c14N+x] }

type pyrSess struct {
	c      *Ctx
	r      *Rng
	root   string
	maxLvl int
	vers   []*pyrVer
	hist   []string
	nextSV uint64
	wedged bool
}

func (s *pyrSess) log(f string, a ...interface{}) { s.hist = append(s.hist, fmt.Sprintf(f, a...)) }
func (s *pyrSess) history() string                { return strings.Join(s.hist, "\n") }

// settle waits until the instance reports itself idle; an instance that never does is itself a violation
func (s *pyrSess) settle() {
	if s.wedged {
		return
	}
	done := make(chan struct{})
	go func() { downres.BlockOnUpdating(dvid.UUID(s.root), "lm"); close(done) }()
	select {
	case <-done:
	case <-time.After(20 * time.Second):
		s.wedged = true
		s.c.Report("O", "C14 never-idle", "after a mutation the instance keeps reporting that lower-resolution levels are updating (waited 20 s)", s.history())
	}
}

// getLevel: the whole region at scale k as supervoxels
func (s *pyrSess) getLevel(uuid string, k int) ([]uint64, string) {
	n := c14N >> uint(k)
	off := c14Off >> uint(k) // arithmetic shift: floor
	path := fmt.Sprintf("node/%s/lm/raw/0_1_2/%d_%d_%d/%d_%d_%d?scale=%d&supervoxels=true", uuid, n, n, n, off, off, off, k)
	r := Get(path)
	if !r.OK() || len(r.Body) != n*n*n*8 {
		return nil, fmt.Sprintf("GET %s -> %d (%d bytes): %s", path, r.Code, len(r.Body), trunc(string(r.Body)))
	}
	out := make([]uint64, n*n*n)
	for i := range out {
		out[i] = binary.LittleEndian.Uint64(r.Body[i*8:])
	}
	return out, ""
}

// checkPyramid: level 0 against the oracle, each level k+1 against the vote over level k as served
func (s *pyrSess) checkPyramid(p *pyrVer) {
	s.settle()
	prev, errs := s.getLevel(p.uuid, 0)
	if errs != "" {
		s.c.Report("O", "C14 read-fails", "reading a level fails: "+errs, s.history())
		return
	}
	if i := firstDiff(prev, p.vox); i != -1 {
		s.c.Report("O", "C14 level0-differs", "level 0 is not what was written", fmt.Sprintf("v%d voxel index %d got %d want %d\n%s", p.v, i, at(prev, i), at(p.vox, i), s.history()))
		return
	}
	n := c14N
	for k := 1; k <= s.maxLvl; k++ {
		cur, errs := s.getLevel(p.uuid, k)
		if errs != "" {
			s.c.Report("O", "C14 read-fails", "reading a level fails: "+errs, s.history())
			return
		}
		hn := n
		n = n / 2
		want := make([]uint64, n*n*n)
		nonzero := false
		for z := 0; z < n; z++ {
			for y := 0; y < n; y++ {
				for x := 0; x < n; x++ {
					var ls [8]uint64
					for o := 0; o < 8; o++ {
						ls[o] = prev[((2*z+o/4)*hn+(2*y+(o/2)%2))*hn+2*x+o%2]
					}
					w := voteRef(ls[:])
					want[(z*n+y)*n+x] = w
					if w != 0 {
						nonzero = true
					}
				}
			}
		}
		s.c.Eval(fmt.Sprintf("v%d level %d %x", p.v, k, fnvLabels(want)), nonzero)
		if i := firstDiff(cur, want); i != -1 {
			x, y, z := i%n, (i/n)%n, i/(n*n)
			lx, ly, lz := x+(c14Off>>uint(k)), y+(c14Off>>uint(k)), z+(c14Off>>uint(k))
			var under []uint64
			for o := 0; o < 8; o++ {
				under = append(under, prev[((2*z+o/4)*hn+(2*y+(o/2)%2))*hn+2*x+o%2])
			}
			s.c.Report("O", fmt.Sprintf("C14 level-differs-from-vote"), "a voxel of a lower-resolution level is not the vote over the 2x2x2 voxels beneath it",
				fmt.Sprintf("version v%d, level %d voxel (%d,%d,%d) (block %d,%d,%d at that level): served %d, the 8 voxels beneath at level %d are %v -> vote %d\nhistory:\n%s\n",
					p.v, k, lx, ly, lz, fdivI(lx, c14B), fdivI(ly, c14B), fdivI(lz, c14B), at(cur, i), k-1, under, at(want, i), s.history()))
			return
		}
		// the Lean vote on a sample 16^3 box of level k-1 against the served level k
		if hn >= 16 {
			bx, by, bz := s.r.Intn(hn/16)*16, s.r.Intn(hn/16)*16, s.r.Intn(hn/16)*16
			sub := make([]uint64, 0, 4096)
			for z := 0; z < 16; z++ {
				for y := 0; y < 16; y++ {
					sub = append(sub, prev[((bz+z)*hn+by+y)*hn+bx:((bz+z)*hn+by+y)*hn+bx+16]...)
				}
			}
			lo := make([]uint64, 0, 512)
			for z := 0; z < 8; z++ {
				for y := 0; y < 8; y++ {
					lo = append(lo, cur[((bz/2+z)*n+by/2+y)*n+bx/2:((bz/2+z)*n+by/2+y)*n+bx/2+8]...)
				}
			}
			s.c.AskCmp("C14-vote-box", fmt.Sprintf("blk.downres 16 16 16 %s", csvU64(sub)), fmt.Sprintf("ok 512 %d", fnvLabels(lo)))
		}
		prev = cur
	}
}

func fdivI(a, b int) int {
	if a >= 0 {
		return a / b
	}
	return -((-a + b - 1) / b)
}

func (s *pyrSess) open() []*pyrVer {
	var o []*pyrVer
	for _, p := range s.vers {
		if !p.locked {
			o = append(o, p)
		}
	}
	return o
}

// writeBlocks: ingest or mutate a set of blocks (one POST per block) with generated supervoxel content
func (s *pyrSess) writeBlock(p *pyrVer, bx, by, bz int) { s.writeBlockMode(p, bx, by, bz, -1) }

// writeBlockMode: mode -1 draws the content pattern; mode 4 writes label 0 over the whole block (an erase)
func (s *pyrSess) writeBlockMode(p *pyrVer, bx, by, bz, forced int) {
	r := s.r
	blk := make([]uint64, c14B*c14B*c14B)
	nsv := 1 + r.Intn(4)
	svs := make([]uint64, nsv)
	for i := range svs {
		svs[i] = s.nextSV
		s.nextSV++
	}
	mode := r.Intn(4)
	if forced >= 0 {
		mode = forced
	}
	cut := [3]int{4 + r.Intn(24), 4 + r.Intn(24), 4 + r.Intn(24)}
	for z := 0; z < c14B; z++ {
		for y := 0; y < c14B; y++ {
			for x := 0; x < c14B; x++ {
				var sv uint64
				switch mode {
				case 0: // checkerboard: every 2x2x2 cell has a tie
					sv = svs[(x+y+z)%nsv]
					if (x^y^z)&1 == 1 && nsv > 1 {
						sv = 0
					}
				case 1: // octant regions
					idx := 0
					if x >= cut[0] {
						idx |= 1
					}
					if y >= cut[1] {
						idx |= 2
					}
					if z >= cut[2] {
						idx |= 4
					}
					if idx%(nsv+1) < nsv {
						sv = svs[idx%(nsv+1)]
					}
				case 2: // stripes of odd width: votes 3:1, 2:2 ...
					sv = svs[((x/3)+(y/5))%nsv]
					if z%7 == 0 {
						sv = 0
					}
				case 4: // erase
				default:
					if r.Chance(0.8) {
						sv = svs[r.Intn(nsv)]
					}
				}
				blk[(z*c14B+y)*c14B+x] = sv
			}
		}
	}
	// existing content decides the mutate flag
	ox, oy, oz := (bx-c14Lo)*c14B, (by-c14Lo)*c14B, (bz-c14Lo)*c14B
	exists := false
	for z := 0; z < c14B && !exists; z++ {
		for y := 0; y < c14B && !exists; y++ {
			for x := 0; x < c14B; x++ {
				if p.at(ox+x, oy+y, oz+z) != 0 {
					exists = true
					break
				}
			}
		}
	}
	path := fmt.Sprintf("node/%s/lm/raw/0_1_2/%d_%d_%d/%d_%d_%d", p.uuid, c14B, c14B, c14B, bx*c14B, by*c14B, bz*c14B)
	if exists {
		path += "?mutate=true"
	}
	rr := Post(path, u64le(blk))
	s.log("POST raw block (%d,%d,%d) svs=%v mode=%d mutate=%v at v%d -> %d", bx, by, bz, svs, mode, exists, p.v, rr.Code)
	if !rr.OK() {
		s.c.Report("O", "C14 write-fails", "a block write fails: "+rr.String(), s.history())
		return
	}
	for z := 0; z < c14B; z++ {
		for y := 0; y < c14B; y++ {
			copy(p.vox[((oz+z)*c14N+oy+y)*c14N+ox:], blk[(z*c14B+y)*c14B:(z*c14B+y)*c14B+c14B])
		}
	}
	s.c.Count(fmt.Sprintf("write-mode-%d", mode))
	if bx < 0 || by < 0 || bz < 0 {
		s.c.Count("write-negative-block")
	}
}

// eraseEpisode: fill a whole level-1 block (aligned 2x2x2 group) and the neighbouring group with data, then write label 0 over the first group — block by block, or in one request — so that a
// lower-resolution block turns blank while its siblings keep data
func (s *pyrSess) eraseEpisode(p *pyrVer) {
	gx, gy, gz := c14Lo/2+s.r.Intn(c14NB/2), c14Lo/2+s.r.Intn(c14NB/2), c14Lo/2+s.r.Intn(c14NB/2)
	sib := [3]int{gx, gy, gz}
	ax := s.r.Intn(3)
	sib[ax] = c14Lo/2 + ((sib[ax] - c14Lo/2) ^ 1) // the other group of the region along one axis
	for _, g := range [][3]int{{gx, gy, gz}, sib} {
		for o := 0; o < 8; o++ {
			s.writeBlockMode(p, 2*g[0]+o%2, 2*g[1]+(o/2)%2, 2*g[2]+o/4, 1+s.r.Intn(3))
		}
	}
	s.settle()
	s.checkPyramid(p)
	if s.r.Bool() {
		for o := 0; o < 8; o++ {
			s.writeBlockMode(p, 2*gx+o%2, 2*gy+(o/2)%2, 2*gz+o/4, 4)
		}
		s.c.Count("erase-group-blockwise")
	} else {
		n := 2 * c14B
		path := fmt.Sprintf("node/%s/lm/raw/0_1_2/%d_%d_%d/%d_%d_%d?mutate=true", p.uuid, n, n, n, 2*gx*c14B, 2*gy*c14B, 2*gz*c14B)
		rr := Post(path, make([]byte, n*n*n*8))
		s.log("POST raw zeros over blocks (%d..%d,%d..%d,%d..%d) mutate=true at v%d -> %d", 2*gx, 2*gx+1, 2*gy, 2*gy+1, 2*gz, 2*gz+1, p.v, rr.Code)
		if !rr.OK() {
			s.c.Report("O", "C14 write-fails", "a block write fails: "+rr.String(), s.history())
			return
		}
		ox, oy, oz := (2*gx-c14Lo)*c14B, (2*gy-c14Lo)*c14B, (2*gz-c14Lo)*c14B
		for z := 0; z < n; z++ {
			for y := 0; y < n; y++ {
				for x := 0; x < n; x++ {
					p.vox[((oz+z)*c14N+oy+y)*c14N+ox+x] = 0
				}
			}
		}
		s.c.Count("erase-group-one-request")
	}
	s.settle()
	s.checkPyramid(p)
}

// bodySplitEpisode: one supervoxel is written over a whole level-1 block (eight blocks), then its body is split
// by a sparse volume that lies inside one of the eight blocks, so that the other seven only have the supervoxel
// renamed in their headers.  The HTTP endpoint for body splits is switched off by default (server option), so
// Data.SplitLabels is called directly.  Level 0 after the split is read back (the new supervoxel ids are the
// server's choice) and validated: untouched voxels unchanged, the split part one new id, the rest another.
func (s *pyrSess) bodySplitEpisode(p *pyrVer) {
	gx, gy, gz := c14Lo/2+s.r.Intn(c14NB/2), c14Lo/2+s.r.Intn(c14NB/2), c14Lo/2+s.r.Intn(c14NB/2)
	sv := s.nextSV
	s.nextSV++
	n := 2 * c14B
	ox, oy, oz := (2*gx-c14Lo)*c14B, (2*gy-c14Lo)*c14B, (2*gz-c14Lo)*c14B
	exists := false
	vol := make([]uint64, n*n*n)
	for i := range vol {
		vol[i] = sv
	}
	for z := 0; z < n && !exists; z++ {
		for y := 0; y < n && !exists; y++ {
			for x := 0; x < n; x++ {
				if p.at(ox+x, oy+y, oz+z) != 0 {
					exists = true
					break
				}
			}
		}
	}
	path := fmt.Sprintf("node/%s/lm/raw/0_1_2/%d_%d_%d/%d_%d_%d", p.uuid, n, n, n, 2*gx*c14B, 2*gy*c14B, 2*gz*c14B)
	if exists {
		path += "?mutate=true"
	}
	rr := Post(path, u64le(vol))
	s.log("POST raw supervoxel %d over blocks (%d..%d,%d..%d,%d..%d) mutate=%v at v%d -> %d", sv, 2*gx, 2*gx+1, 2*gy, 2*gy+1, 2*gz, 2*gz+1, exists, p.v, rr.Code)
	if !rr.OK() {
		s.c.Report("O", "C14 write-fails", "a block write fails: "+rr.String(), s.history())
		return
	}
	for z := 0; z < n; z++ {
		for y := 0; y < n; y++ {
			for x := 0; x < n; x++ {
				p.vox[((oz+z)*c14N+oy+y)*c14N+ox+x] = sv
			}
		}
	}
	s.settle()
	s.checkPyramid(p)
	// split volume: a corner region of the first block of the group
	cut := 8 + s.r.Intn(16)
	type span struct{ x, y, z, n int32 }
	var spans []span
	inSplit := map[int]bool{}
	for z := 0; z < cut; z++ {
		for y := 0; y < c14B; y++ {
			spans = append(spans, span{int32(2 * gx * c14B), int32(2*gy*c14B + y), int32(2*gz*c14B + z), int32(cut)})
			for x := 0; x < cut; x++ {
				inSplit[((oz+z)*c14N+oy+y)*c14N+ox+x] = true
			}
		}
	}
	var buf bytes.Buffer
	buf.Write([]byte{0, 3, 0, 0})
	binary.Write(&buf, binary.LittleEndian, uint32(0))
	binary.Write(&buf, binary.LittleEndian, uint32(len(spans)))
	for _, sp := range spans {
		binary.Write(&buf, binary.LittleEndian, sp)
	}
	d, err := datastore.GetDataByUUIDName(dvid.UUID(p.uuid), "lm")
	if err != nil {
		s.c.Report("H", "C14 body-split", err.Error(), "")
		return
	}
	ld, ok := d.(*labelmap.Data)
	v, _ := datastore.VersionFromUUID(dvid.UUID(p.uuid))
	if !ok {
		return
	}
	toLabel, _, err := ld.SplitLabels(v, sv, io.NopCloser(bytes.NewReader(buf.Bytes())), dvid.ModInfo{User: "verif"})
	s.log("SplitLabels body %d by %d runs inside block (%d,%d,%d) at v%d -> new body %d, err %v", sv, len(spans), 2*gx, 2*gy, 2*gz, p.v, toLabel, err)
	if err != nil {
		s.c.Report("O", "C14 body-split-fails", "a body split of a well-formed sparse volume fails: "+err.Error(), s.history())
		return
	}
	s.settle()
	got, e := s.getLevel(p.uuid, 0)
	if got == nil {
		s.c.Report("O", "C14 read-fails", "level 0 cannot be read after a body split", e+"\n"+s.history())
		return
	}
	var xs, ys uint64
	for i, old := range p.vox {
		switch {
		case old != sv:
			if got[i] != old {
				s.c.Report("O", "C14 body-split-touches-others", "a body split changed a voxel outside the split body", fmt.Sprintf("voxel index %d: %d -> %d\n%s", i, old, got[i], s.history()))
				return
			}
		case inSplit[i]:
			if xs == 0 {
				xs = got[i]
			}
			if got[i] != xs || got[i] == sv || got[i] == 0 {
				s.c.Report("O", "C14 body-split-level0", "after a body split the split voxels do not carry one new supervoxel id", fmt.Sprintf("voxel index %d: %d (others %d)\n%s", i, got[i], xs, s.history()))
				return
			}
		default:
			if ys == 0 {
				ys = got[i]
			}
			if got[i] != ys || got[i] == 0 {
				s.c.Report("O", "C14 body-split-level0", "after a body split the remaining voxels do not carry one supervoxel id", fmt.Sprintf("voxel index %d: %d (others %d)\n%s", i, got[i], ys, s.history()))
				return
			}
		}
	}
	if xs == ys {
		s.c.Report("O", "C14 body-split-level0", "after a body split both parts carry the same supervoxel id", s.history())
		return
	}
	copy(p.vox, got)
	for _, l := range []uint64{xs, ys, toLabel} {
		if l >= s.nextSV {
			s.nextSV = l + 1
		}
	}
	s.c.Count("body-split")
	s.checkPyramid(p)
}

// idleEpisode: a mutating write is held (yield hook) just before its last lower-resolution level is computed; in
// that state the volume must not report itself idle.  If it does, the stale top level is read as evidence.
func (s *pyrSess) idleEpisode(p *pyrVer) {
	// a block with data, so that every level has something to compute
	s.writeBlockMode(p, c14Lo, c14Lo, c14Lo, 1)
	s.settle()
	parked := make(chan struct{})
	release := make(chan struct{})
	var once sync.Once
	calls := 0
	var mu sync.Mutex
	dvid.VerifYieldFunc = func(site string) {
		if site != "downres.Execute" {
			return
		}
		mu.Lock()
		calls++
		k := calls
		mu.Unlock()
		if k == s.maxLvl { // before the last level of this mutation
			once.Do(func() { close(parked) })
			<-release
		}
	}
	blk := make([]uint64, c14B*c14B*c14B)
	sv := s.nextSV
	s.nextSV++
	for i := range blk {
		blk[i] = sv
	}
	done := make(chan Resp, 1)
	go func() {
		done <- Post(fmt.Sprintf("node/%s/lm/raw/0_1_2/%d_%d_%d/%d_%d_%d?mutate=true", p.uuid, c14B, c14B, c14B, c14Lo*c14B, c14Lo*c14B, c14Lo*c14B), u64le(blk))
	}()
	idleWhileParked := false
	select {
	case <-parked:
		idle := make(chan struct{})
		go func() { downres.BlockOnUpdating(dvid.UUID(s.root), "lm"); close(idle) }()
		select {
		case <-idle:
			idleWhileParked = true
		case <-time.After(1500 * time.Millisecond):
		}
	case <-time.After(10 * time.Second):
	}
	var evidence string
	if idleWhileParked {
		if top, _ := s.getLevel(p.uuid, s.maxLvl); top != nil {
			n := c14N >> uint(s.maxLvl)
			if top[0] != sv {
				evidence = fmt.Sprintf("level %d voxel (%d,%d,%d) still reads %d while level 0 beneath it was overwritten with supervoxel %d (region edge %d)", s.maxLvl, c14Off>>uint(s.maxLvl), c14Off>>uint(s.maxLvl), c14Off>>uint(s.maxLvl), top[0], sv, n)
			}
		}
	}
	close(release)
	rr := <-done
	dvid.VerifYieldFunc = nil
	s.log("POST raw block (%d,%d,%d) all supervoxel %d mutate=true at v%d, held before level %d -> %d", c14Lo, c14Lo, c14Lo, sv, p.v, s.maxLvl, rr.Code)
	if rr.OK() {
		ox, oy, oz := 0, 0, 0
		for z := 0; z < c14B; z++ {
			for y := 0; y < c14B; y++ {
				for x := 0; x < c14B; x++ {
					p.vox[((oz+z)*c14N+oy+y)*c14N+ox+x] = sv
				}
			}
		}
	}
	s.c.Eval(fmt.Sprintf("idle while level %d pending", s.maxLvl), true)
	s.c.Count("idle-episode")
	if idleWhileParked {
		s.c.Report("O", "C14 idle-while-level-pending", "the volume reports itself idle while a lower-resolution level of a running mutation is not yet up to date",
			fmt.Sprintf("max level %d; a mutating write was held before its level-%d computation; downres.BlockOnUpdating returned (idle) in that state\n%s\n%s", s.maxLvl, s.maxLvl, evidence, s.history()))
	}
	s.settle()
	s.checkPyramid(p)
}

// concurrentOctantsEpisode: the eight blocks beneath one level-1 block are written by eight simultaneous
// requests (each a single octant of the parent, so each mutation reads the stored parent block, fills in its own
// octant and writes it back); after all are acknowledged and the volume is idle the pyramid must hold all eight.
func (s *pyrSess) concurrentOctantsEpisode(p *pyrVer) {
	px, py, pz := c14Lo/2+s.r.Intn(c14NB/2), c14Lo/2+s.r.Intn(c14NB/2), c14Lo/2+s.r.Intn(c14NB/2)
	type wr struct {
		bc   [3]int
		blk  []uint64
		path string
		resp Resp
	}
	var ws []*wr
	for o := 0; o < 8; o++ {
		bc := [3]int{2*px + o%2, 2*py + (o/2)%2, 2*pz + o/4}
		blk := make([]uint64, c14B*c14B*c14B)
		sv := s.nextSV
		s.nextSV++
		for i := range blk {
			blk[i] = sv
			if i%5 == 0 {
				blk[i] = sv + 100000
			}
		}
		ws = append(ws, &wr{bc: bc, blk: blk, path: fmt.Sprintf("node/%s/lm/raw/0_1_2/%d_%d_%d/%d_%d_%d?mutate=true", p.uuid, c14B, c14B, c14B, bc[0]*c14B, bc[1]*c14B, bc[2]*c14B)})
	}
	var wg sync.WaitGroup
	start := make(chan struct{})
	for _, w := range ws {
		wg.Add(1)
		go func(w *wr) {
			defer wg.Done()
			<-start
			w.resp = Post(w.path, u64le(w.blk))
		}(w)
	}
	close(start)
	wg.Wait()
	s.log("eight simultaneous POST raw ?mutate=true, one per block beneath level-1 block (%d,%d,%d), at v%d", px, py, pz, p.v)
	for _, w := range ws {
		if !w.resp.OK() {
			s.log("  block %v -> %s (not applied)", w.bc, w.resp)
			continue
		}
		ox, oy, oz := (w.bc[0]-c14Lo)*c14B, (w.bc[1]-c14Lo)*c14B, (w.bc[2]-c14Lo)*c14B
		for z := 0; z < c14B; z++ {
			for y := 0; y < c14B; y++ {
				copy(p.vox[((oz+z)*c14N+oy+y)*c14N+ox:], w.blk[(z*c14B+y)*c14B:(z*c14B+y)*c14B+c14B])
			}
		}
	}
	s.c.Eval("concurrent octants", true)
	s.c.Count("concurrent-octants-episode")
	s.settle()
	s.checkPyramid(p)
}

func (s *pyrSess) splitSV(p *pyrVer) bool {
	seen := map[uint64]int{}
	for _, sv := range p.vox {
		if sv != 0 {
			seen[sv]++
		}
	}
	var svs []uint64
	for sv, n := range seen {
		if n >= 2 {
			svs = append(svs, sv)
		}
	}
	if len(svs) == 0 {
		return false
	}
	sort.Slice(svs, func(i, j int) bool { return svs[i] < svs[j] })
	sv := svs[s.r.Intn(len(svs))]
	type span struct{ x, y, z, n int32 }
	var spans []span
	split, total := 0, seen[sv]
	par := s.r.Intn(2)
	for z := 0; z < c14N; z++ {
		for y := 0; y < c14N; y++ {
			for x := 0; x < c14N; {
				in := p.at(x, y, z) == sv && (x/3+y+z)%2 == par
				if !in {
					x++
					continue
				}
				x0 := x
				for x < c14N && p.at(x, y, z) == sv && (x/3+y+z)%2 == par {
					x++
				}
				spans = append(spans, span{int32(x0 + c14Off), int32(y + c14Off), int32(z + c14Off), int32(x - x0)})
				split += x - x0
			}
		}
	}
	if split == 0 || split == total {
		return false
	}
	var buf bytes.Buffer
	buf.Write([]byte{0, 3, 0, 0})
	binary.Write(&buf, binary.LittleEndian, uint32(0))
	binary.Write(&buf, binary.LittleEndian, uint32(len(spans)))
	for _, sp := range spans {
		binary.Write(&buf, binary.LittleEndian, sp)
	}
	rr := Post(fmt.Sprintf("node/%s/lm/split-supervoxel/%d", p.uuid, sv), buf.Bytes())
	s.log("split-supervoxel %d (%d of %d voxels, %d runs) at v%d -> %d %s", sv, split, total, len(spans), p.v, rr.Code, trunc(string(rr.Body)))
	if !rr.OK() {
		s.c.Report("O", "C14 split-fails", "split-supervoxel fails: "+rr.String(), s.history())
		return false
	}
	var out struct{ SplitSupervoxel, RemainSupervoxel uint64 }
	json.Unmarshal(rr.Body, &out)
	for _, sp := range spans {
		for k := int32(0); k < sp.n; k++ {
			p.vox[(int(sp.z-c14Off)*c14N+int(sp.y-c14Off))*c14N+int(sp.x+k-c14Off)] = out.SplitSupervoxel
		}
	}
	for i, x := range p.vox {
		if x == sv {
			p.vox[i] = out.RemainSupervoxel
		}
	}
	for _, l := range []uint64{out.SplitSupervoxel, out.RemainSupervoxel} {
		if l >= s.nextSV {
			s.nextSV = l + 1
		}
	}
	s.c.Count("split-supervoxel")
	return true
}

func runC14(c *Ctx) {
	c.Rule = "a case is one (version, level k>=1) whose served supervoxel volume is compared voxel for voxel with the 2x2x2 vote over the served level k-1 (level 0 with what was written), after the instance reported idle, following a generated history of block ingests and mutating writes (single octants, all eight, odd and even negative block coordinates, content with vote ties), supervoxel splits, commits and new versions; non-trivial when the expected level has a non-zero voxel"
	quietLogs()
	sessions, steps := 3, 14
	if c.Thorough {
		sessions, steps = 9, 50
	}
	for si := 0; si < sessions; si++ {
		func() {
			OpenServer()
			defer CloseServer()
			s := &pyrSess{c: c, r: c.Rng.Fork(), nextSV: 10, maxLvl: 1 + si%3}
			s.root = NewRepo()
			if r := NewInstance(s.root, "labelmap", "lm", map[string]string{"BlockSize": "32,32,32", "MaxDownresLevel": fmt.Sprint(s.maxLvl)}); !r.OK() {
				c.Report("H", "C14 instance", r.String(), "")
				return
			}
			c.Count(fmt.Sprintf("max-level-%d", s.maxLvl))
			s.vers = []*pyrVer{{uuid: s.root, v: 1, vox: make([]uint64, c14N*c14N*c14N)}}
			if si >= 1 || c.Thorough {
				s.eraseEpisode(s.vers[0])
			}
			if si != 1 || c.Thorough {
				s.bodySplitEpisode(s.vers[0])
			}
			s.idleEpisode(s.vers[0])
			s.concurrentOctantsEpisode(s.vers[0])
			for i := 0; i < steps; i++ {
				o := s.open()
				if len(o) == 0 || s.wedged {
					break
				}
				p := o[s.r.Intn(len(o))]
				switch k := s.r.Intn(10); {
				case k < 6:
					// a set of blocks: one octant of a parent, all eight, or scattered
					var coords [][3]int
					forced := -1
					switch s.r.Intn(4) {
					case 3:
						// erase: label 0 over a whole level-1 block (an aligned 2x2x2 group) or over one block,
						// next to siblings that keep their data
						forced = 4
						px, py, pz := c14Lo/2+s.r.Intn(c14NB/2), c14Lo/2+s.r.Intn(c14NB/2), c14Lo/2+s.r.Intn(c14NB/2)
						if s.r.Bool() {
							for o := 0; o < 8; o++ {
								coords = append(coords, [3]int{2*px + o%2, 2*py + (o/2)%2, 2*pz + o/4})
							}
						} else {
							coords = append(coords, [3]int{c14Lo + s.r.Intn(c14NB), c14Lo + s.r.Intn(c14NB), c14Lo + s.r.Intn(c14NB)})
						}
						s.c.Count("erase")
					case 0:
						coords = append(coords, [3]int{c14Lo + s.r.Intn(c14NB), c14Lo + s.r.Intn(c14NB), c14Lo + s.r.Intn(c14NB)})
					case 1:
						px, py, pz := c14Lo/2+s.r.Intn(c14NB/2), c14Lo/2+s.r.Intn(c14NB/2), c14Lo/2+s.r.Intn(c14NB/2)
						for o := 0; o < 8; o++ {
							coords = append(coords, [3]int{2*px + o%2, 2*py + (o/2)%2, 2*pz + o/4})
						}
					default:
						for j := 0; j < 2+s.r.Intn(3); j++ {
							coords = append(coords, [3]int{c14Lo + s.r.Intn(c14NB), c14Lo + s.r.Intn(c14NB), c14Lo + s.r.Intn(c14NB)})
						}
					}
					for _, bc := range coords {
						s.writeBlockMode(p, bc[0], bc[1], bc[2], forced)
					}
				case k < 8:
					if !s.splitSV(p) {
						s.writeBlock(p, c14Lo+s.r.Intn(c14NB), c14Lo+s.r.Intn(c14NB), c14Lo+s.r.Intn(c14NB))
					}
				default:
					s.settle()
					if !p.locked {
						Commit(p.uuid)
						p.locked = true
						s.log("commit v%d", p.v)
					}
					var child string
					var rr Resp
					if s.r.Bool() {
						child, rr = NewVersion(p.uuid)
					}
					if child == "" {
						child, rr = Branch(p.uuid, fmt.Sprintf("b%d", len(s.vers)))
					}
					if rr.OK() && child != "" {
						nv := &pyrVer{uuid: child, v: len(s.vers) + 1, vox: append([]uint64(nil), p.vox...)}
						s.vers = append(s.vers, nv)
						s.log("new version v%d off v%d", nv.v, p.v)
					}
				}
				if i%3 == 2 || i == steps-1 {
					for _, q := range s.vers {
						s.checkPyramid(q)
					}
				}
			}
		}()
	}
}
