package main

// C08 — label indices, voxels and mappings stay consistent under proofreading.
//
// O: after every few operations of a generated history (block ingests and mutating overwrites, merges,
//    cleaves, supervoxel splits, renumberings, commits / new versions / branches) every read endpoint of every
//    version is compared with a scan of the oracle's voxels under the oracle's supervoxel→body mapping.
// X: the label-index algebra (labels.Index: Add, Cleave, ModifyBlocks, supervoxel split surgery, counts) is
//    compared with the Lean model on generated indices at package level (c08idx.go).

import (
	"bytes"
	"encoding/binary"
	"encoding/json"
	"fmt"
	"os"
	"sort"
	"strings"
	"time"

	"github.com/janelia-flyem/dvid/datatype/common/labels"
	"github.com/janelia-flyem/dvid/datatype/common/proto"
	pb "google.golang.org/protobuf/proto"
)

func init() { register("C08", runC08) }

type lmScan struct {
	size   map[uint64]int                       // body -> voxels
	svs    map[uint64][]uint64                  // body -> supervoxels (sorted)
	svSize map[uint64]int                       // supervoxel -> voxels
	index  map[uint64]map[[3]int]map[uint64]int // body -> block -> supervoxel -> voxels
	mapped []uint64                             // body per voxel, x fastest
	raw    []uint64                             // supervoxel per voxel
}

func scanVersion(n *wnode) *lmScan {
	s := &lmScan{size: map[uint64]int{}, svs: map[uint64][]uint64{}, svSize: map[uint64]int{}, index: map[uint64]map[[3]int]map[uint64]int{},
		mapped: make([]uint64, lmN*lmN*lmN), raw: make([]uint64, lmN*lmN*lmN)}
	seen := map[uint64]bool{}
	for zy, row := range n.lm.vox {
		z, y := zy/lmN, zy%lmN
		for x, sv := range row {
			i := zy*lmN + x
			s.raw[i] = sv
			if sv == 0 {
				continue
			}
			b := n.lm.body(sv)
			s.mapped[i] = b
			s.size[b]++
			s.svSize[sv]++
			if !seen[sv] {
				seen[sv] = true
				s.svs[b] = append(s.svs[b], sv)
			}
			bi := s.index[b]
			if bi == nil {
				bi = map[[3]int]map[uint64]int{}
				s.index[b] = bi
			}
			k := [3]int{x / lmB, y / lmB, z / lmB}
			if bi[k] == nil {
				bi[k] = map[uint64]int{}
			}
			bi[k][sv]++
		}
	}
	for b := range s.svs {
		sort.Slice(s.svs[b], func(i, j int) bool { return s.svs[b][i] < s.svs[b][j] })
	}
	return s
}

type c08Sess struct {
	c    *Ctx
	w    *World
	ch   *Child
	dead bool
}

func (s *c08Sess) fail(sig, what, detail string) {
	s.c.Report("O", sig, what, detail+"\nhistory:\n"+strings.Join(s.w.hist, "\n")+"\n")
}

func (s *c08Sess) get(n *wnode, path string, body []byte) (Resp, bool) {
	if s.dead {
		return Resp{Code: -2}, false
	}
	r, ok := s.ch.HTTP("GET", "node/"+n.uuid+"/lm/"+path, body)
	if !ok {
		s.dead = true
		tail := s.ch.StderrTail(14)
		s.c.Report("O", "C08 server-died "+deathSite(tail), "the server process died during the labelmap workload", fmt.Sprintf("GET %s at v%d\nstderr:\n%s\nhistory:\n%s\n", path, n.v, tail, strings.Join(s.w.hist, "\n")))
	}
	return r, ok
}

// decodeSparse: DVID's RLE encoding -> runs (x,y,z,len)
func decodeSparse(b []byte) ([][4]int32, string) {
	if len(b) < 12 {
		return nil, fmt.Sprintf("sparse volume of %d bytes", len(b))
	}
	n := int(binary.LittleEndian.Uint32(b[8:]))
	if len(b) != 12+16*n {
		return nil, fmt.Sprintf("sparse volume announces %d runs but has %d bytes", n, len(b))
	}
	out := make([][4]int32, n)
	for i := range out {
		for k := 0; k < 4; k++ {
			out[i][k] = int32(binary.LittleEndian.Uint32(b[12+16*i+4*k:]))
		}
	}
	return out, ""
}

func (s *c08Sess) checkBody(n *wnode, sc *lmScan, b uint64) {
	tag := fmt.Sprintf("v%d body %d", n.v, b)
	s.c.Eval(fmt.Sprintf("%s size %d svs %v", tag, sc.size[b], sc.svs[b]), len(sc.svs[b]) > 1 || len(sc.index[b]) > 1)
	// size
	if r, ok := s.get(n, fmt.Sprintf("size/%d", b), nil); ok {
		var o struct{ Voxels int }
		json.Unmarshal(r.Body, &o)
		if !r.OK() || o.Voxels != sc.size[b] {
			s.fail("C08 size-differs", "a body's reported size is not the number of its voxels", fmt.Sprintf("%s: GET size -> %s, scan of the voxels under the mapping: %d", tag, r, sc.size[b]))
		}
	}
	// supervoxels
	if r, ok := s.get(n, fmt.Sprintf("supervoxels/%d", b), nil); ok {
		var got []uint64
		json.Unmarshal(r.Body, &got)
		sort.Slice(got, func(i, j int) bool { return got[i] < got[j] })
		if !r.OK() || fmt.Sprint(got) != fmt.Sprint(sc.svs[b]) {
			s.fail("C08 supervoxels-differ", "a body's supervoxel set is not the set of supervoxels mapped to it that have voxels", fmt.Sprintf("%s: GET supervoxels -> %s, scan: %v", tag, r, sc.svs[b]))
		}
	}
	// supervoxel-sizes
	if r, ok := s.get(n, fmt.Sprintf("supervoxel-sizes/%d", b), nil); ok {
		var o struct {
			Supervoxels []uint64
			Sizes       []int
		}
		json.Unmarshal(r.Body, &o)
		got := map[uint64]int{}
		for i := range o.Supervoxels {
			if i < len(o.Sizes) {
				got[o.Supervoxels[i]] = o.Sizes[i]
			}
		}
		want := map[uint64]int{}
		for _, sv := range sc.svs[b] {
			want[sv] = sc.svSize[sv]
		}
		if !r.OK() || fmt.Sprint(got) != fmt.Sprint(want) {
			s.fail("C08 supervoxel-sizes-differ", "per-supervoxel sizes of a body differ from the voxel scan", fmt.Sprintf("%s: GET supervoxel-sizes -> %s, scan: %v", tag, r, want))
		}
	}
	// index
	if r, ok := s.get(n, fmt.Sprintf("index/%d", b), nil); ok {
		var li proto.LabelIndex
		err := pb.Unmarshal(r.Body, &li)
		got := map[[3]int]map[uint64]int{}
		if err == nil {
			for zyx, svc := range li.Blocks {
				x, y, z := labels.DecodeBlockIndex(zyx)
				m := map[uint64]int{}
				for sv, c := range svc.Counts {
					if c != 0 {
						m[sv] = int(c)
					}
				}
				if len(m) > 0 {
					got[[3]int{int(x), int(y), int(z)}] = m
				}
			}
		}
		if !r.OK() || err != nil || fmt.Sprint(got) != fmt.Sprint(sc.index[b]) {
			s.fail("C08 index-differs", "a body's per-block supervoxel counts differ from the voxel scan", fmt.Sprintf("%s: GET index -> %d (%d bytes) decoded %v\nscan: %v", tag, r.Code, len(r.Body), got, sc.index[b]))
		}
	}
	// sparsevol (rles) and coarse
	for _, form := range []string{"sparsevol/%d?format=rles", "sparsevol/%d?format=srles", "sparsevol/%d?format=blocks"} {
		r, ok := s.get(n, fmt.Sprintf(form, b), nil)
		if !ok {
			return
		}
		var runs [][4]int32
		var e string
		if strings.Contains(form, "format=blocks") {
			runs, e = decodeBinaryBlocks(r.Body)
			s.c.Count("sparsevol format=blocks")
		} else if strings.Contains(form, "srles") {
			// streaming RLEs: no header, just runs
			if len(r.Body)%16 != 0 {
				e = fmt.Sprintf("streaming RLE body of %d bytes", len(r.Body))
			} else {
				runs = make([][4]int32, len(r.Body)/16)
				for i := range runs {
					for k := 0; k < 4; k++ {
						runs[i][k] = int32(binary.LittleEndian.Uint32(r.Body[16*i+4*k:]))
					}
				}
			}
		} else {
			runs, e = decodeSparse(r.Body)
		}
		if !r.OK() || e != "" {
			s.fail("C08 sparsevol-fails", "a body's sparse volume cannot be read", fmt.Sprintf("%s: GET %s -> %d %s", tag, fmt.Sprintf(form, b), r.Code, e))
			continue
		}
		cover := make([]uint8, lmN*lmN*lmN)
		bad := ""
		for _, ru := range runs {
			for k := int32(0); k < ru[3]; k++ {
				x, y, z := int(ru[0]+k), int(ru[1]), int(ru[2])
				if x < 0 || y < 0 || z < 0 || x >= lmN || y >= lmN || z >= lmN {
					bad = fmt.Sprintf("run %v leaves the volume", ru)
					break
				}
				cover[(z*lmN+y)*lmN+x]++
			}
		}
		if bad == "" {
			for i, cv := range cover {
				in := sc.mapped[i] == b
				if cv > 1 {
					bad = fmt.Sprintf("voxel (%d,%d,%d) is covered %d times", i%lmN, (i/lmN)%lmN, i/(lmN*lmN), cv)
					break
				}
				if (cv == 1) != in {
					bad = fmt.Sprintf("voxel (%d,%d,%d): in sparse volume=%v, body by scan=%d (supervoxel %d)", i%lmN, (i/lmN)%lmN, i/(lmN*lmN), cv == 1, sc.mapped[i], sc.raw[i])
					break
				}
			}
		}
		if bad != "" {
			s.fail("C08 sparsevol-differs", "a body's sparse volume is not the set of its voxels", fmt.Sprintf("%s: GET %s (%d runs): %s", tag, fmt.Sprintf(form, b), len(runs), bad))
		}
	}
	if r, ok := s.get(n, fmt.Sprintf("sparsevol-coarse/%d", b), nil); ok {
		runs, e := decodeSparse(r.Body)
		got := map[[3]int]bool{}
		for _, ru := range runs {
			for k := int32(0); k < ru[3]; k++ {
				got[[3]int{int(ru[0] + k), int(ru[1]), int(ru[2])}] = true
			}
		}
		want := map[[3]int]bool{}
		for k := range sc.index[b] {
			want[k] = true
		}
		if !r.OK() || e != "" || fmt.Sprint(got) != fmt.Sprint(want) {
			s.fail("C08 coarse-differs", "a body's coarse volume is not the set of blocks holding its voxels", fmt.Sprintf("%s: GET sparsevol-coarse -> %d %s blocks %v, scan: %v", tag, r.Code, e, got, want))
		}
	}
	if r, ok := s.get(n, fmt.Sprintf("sparsevol-size/%d", b), nil); ok {
		var o struct {
			Voxels    int
			Numblocks int
		}
		json.Unmarshal(r.Body, &o)
		if !r.OK() || o.Voxels != sc.size[b] || o.Numblocks != len(sc.index[b]) {
			s.fail("C08 sparsevol-size-differs", "sparsevol-size disagrees with the voxel scan", fmt.Sprintf("%s: GET sparsevol-size -> %s, scan: %d voxels in %d blocks", tag, r, sc.size[b], len(sc.index[b])))
		}
	}
}

func u64sOf(b []byte) []uint64 {
	out := make([]uint64, len(b)/8)
	for i := range out {
		out[i] = binary.LittleEndian.Uint64(b[8*i:])
	}
	return out
}

func (s *c08Sess) checkVersion(n *wnode) {
	if n.lm == nil || s.dead {
		return
	}
	sc := scanVersion(n)
	var bodies []uint64
	for b := range sc.size {
		bodies = append(bodies, b)
	}
	sort.Slice(bodies, func(i, j int) bool { return bodies[i] < bodies[j] })
	for _, b := range bodies {
		s.checkBody(n, sc, b)
		if s.dead {
			return
		}
	}
	tag := fmt.Sprintf("v%d", n.v)
	// volume reads: mapped and supervoxels, raw and block stream
	for _, q := range []string{"", "?supervoxels=true"} {
		want := sc.mapped
		if q != "" {
			want = sc.raw
		}
		if r, ok := s.get(n, fmt.Sprintf("raw/0_1_2/%d_%d_%d/0_0_0%s", lmN, lmN, lmN, q), nil); ok {
			got := u64sOf(r.Body)
			if i := firstDiff(got, want); !r.OK() || i != -1 {
				s.fail("C08 raw-differs"+q, "a volume read does not return the voxels under this version's mapping", fmt.Sprintf("%s: GET raw%s -> %d, voxel index %d (%d,%d,%d): got %d want %d (supervoxel %d)", tag, q, r.Code, i, i%lmN, (i/lmN)%lmN, i/(lmN*lmN), at(got, i), at(want, i), at(sc.raw, i)))
			}
		}
		bq := "?compression=blocks"
		if q != "" {
			bq += "&supervoxels=true"
		}
		if r, ok := s.get(n, fmt.Sprintf("blocks/%d_%d_%d/0_0_0%s", lmN, lmN, lmN, bq), nil); ok {
			got := make([]uint64, lmN*lmN*lmN)
			e := ""
			for _, f := range parseFrames(r.Body) {
				var blk labels.Block
				inner := gunzip(f.gz)
				if inner == nil || blk.UnmarshalBinary(inner) != nil {
					e = fmt.Sprintf("block (%d,%d,%d) does not decode", f.x, f.y, f.z)
					break
				}
				arr, size := blk.MakeLabelVolume()
				if size[0] != lmB || size[1] != lmB || size[2] != lmB || f.x < 0 || f.y < 0 || f.z < 0 || int(f.x) >= lmN/lmB || int(f.y) >= lmN/lmB || int(f.z) >= lmN/lmB {
					e = fmt.Sprintf("block (%d,%d,%d) size %v unexpected", f.x, f.y, f.z, size)
					break
				}
				ls := u64sOf(arr)
				for z := 0; z < lmB; z++ {
					for y := 0; y < lmB; y++ {
						copy(got[((int(f.z)*lmB+z)*lmN+int(f.y)*lmB+y)*lmN+int(f.x)*lmB:], ls[(z*lmB+y)*lmB:(z*lmB+y)*lmB+lmB])
					}
				}
			}
			if i := firstDiff(got, want); !r.OK() || e != "" || i != -1 {
				s.fail("C08 blocks-differ"+q, "a block read does not return the voxels under this version's mapping", fmt.Sprintf("%s: GET blocks%s -> %d %s, voxel index %d: got %d want %d", tag, bq, r.Code, e, i, at(got, i), at(want, i)))
			}
		}
	}
	// point lookups
	r := s.w.r
	var pts [][3]int
	for k := 0; k < 24; k++ {
		pts = append(pts, [3]int{r.Intn(lmN), r.Intn(lmN), r.Intn(lmN)})
	}
	ptsJSON, _ := json.Marshal(pts)
	for _, q := range []string{"", "?supervoxels=true"} {
		src := sc.mapped
		if q != "" {
			src = sc.raw
		}
		var want []uint64
		for _, p := range pts {
			want = append(want, src[(p[2]*lmN+p[1])*lmN+p[0]])
		}
		if rr, ok := s.get(n, "labels"+q, ptsJSON); ok {
			var got []uint64
			json.Unmarshal(rr.Body, &got)
			if !rr.OK() || fmt.Sprint(got) != fmt.Sprint(want) {
				s.fail("C08 labels-differ"+q, "point lookups disagree with the voxel scan", fmt.Sprintf("%s: GET labels%s %s -> %s, scan: %v", tag, q, ptsJSON, rr, want))
			}
		}
		p := pts[0]
		if rr, ok := s.get(n, fmt.Sprintf("label/%d_%d_%d%s", p[0], p[1], p[2], q), nil); ok {
			var o struct{ Label uint64 }
			json.Unmarshal(rr.Body, &o)
			if !rr.OK() || o.Label != want[0] {
				s.fail("C08 label-differs"+q, "a point lookup disagrees with the voxel scan", fmt.Sprintf("%s: GET label/%d_%d_%d%s -> %s, scan: %d", tag, p[0], p[1], p[2], q, rr, want[0]))
			}
		}
	}
	// mapping of every live supervoxel
	var svs []uint64
	for sv := range sc.svSize {
		svs = append(svs, sv)
	}
	sort.Slice(svs, func(i, j int) bool { return svs[i] < svs[j] })
	if len(svs) > 0 {
		b, _ := json.Marshal(svs)
		if rr, ok := s.get(n, "mapping", b); ok {
			var got []uint64
			json.Unmarshal(rr.Body, &got)
			var want []uint64
			for _, sv := range svs {
				want = append(want, n.lm.body(sv))
			}
			if !rr.OK() || fmt.Sprint(got) != fmt.Sprint(want) {
				s.fail("C08 mapping-differs", "the supervoxel→body mapping served differs from the one the operations produced", fmt.Sprintf("%s: GET mapping %s -> %s, expected %v", tag, b, rr, want))
			}
		}
		// sizes of all bodies and of all supervoxels in one request each
		bb, _ := json.Marshal(bodies)
		if rr, ok := s.get(n, "sizes", bb); ok {
			var got []int
			json.Unmarshal(rr.Body, &got)
			var want []int
			for _, x := range bodies {
				want = append(want, sc.size[x])
			}
			if !rr.OK() || fmt.Sprint(got) != fmt.Sprint(want) {
				s.fail("C08 sizes-differ", "sizes of a list of bodies differ from the voxel scan", fmt.Sprintf("%s: GET sizes %s -> %s, scan %v", tag, bb, rr, want))
			}
		}
		if rr, ok := s.get(n, "sizes?supervoxels=true", b); ok {
			var got []int
			json.Unmarshal(rr.Body, &got)
			var want []int
			for _, sv := range svs {
				want = append(want, sc.svSize[sv])
			}
			if !rr.OK() || fmt.Sprint(got) != fmt.Sprint(want) {
				s.fail("C08 sizes-differ?supervoxels", "sizes of a list of supervoxels differ from the voxel scan", fmt.Sprintf("%s: GET sizes?supervoxels=true %s -> %s, scan %v", tag, b, rr, want))
			}
		}
	}
	// the set of bodies: listlabels (with sizes) and existing-labels name exactly the bodies that have voxels
	if rr, ok := s.get(n, "listlabels?sizes=true", nil); ok {
		got := u64sOf(rr.Body)
		var want []uint64
		for _, x := range bodies {
			want = append(want, x, uint64(sc.size[x]))
		}
		if !rr.OK() || fmt.Sprint(got) != fmt.Sprint(want) {
			diag := ""
			for i := 0; i+1 < len(got); i += 2 {
				if _, okb := sc.size[got[i]]; !okb {
					r1, _ := s.get(n, fmt.Sprintf("supervoxels/%d", got[i]), nil)
					mb, _ := json.Marshal([]uint64{got[i]})
					r2, _ := s.get(n, "mapping", mb)
					r3, _ := s.get(n, fmt.Sprintf("sparsevol-coarse/%d", got[i]), nil)
					runs, _ := decodeSparse(r3.Body)
					diag += fmt.Sprintf("\n  listed body %d (no voxels by scan): supervoxels -> %s; mapping of %d -> %s; coarse blocks %v", got[i], r1, got[i], r2, runs)
				}
			}
			tag += diag
			s.fail("C08 listlabels-differ", "the list of bodies (with sizes) is not the set of bodies that have voxels", fmt.Sprintf("%s: GET listlabels?sizes=true -> %d %v, scan %v", tag, rr.Code, got, want))
		}
	}
	if rr, ok := s.get(n, "existing-labels", nil); ok {
		var got []uint64
		json.Unmarshal(rr.Body, &got)
		sort.Slice(got, func(i, j int) bool { return got[i] < got[j] })
		if !rr.OK() || fmt.Sprint(got) != fmt.Sprint(bodies) {
			s.fail("C08 existing-labels-differ", "existing-labels is not the set of bodies that have voxels", fmt.Sprintf("%s: GET existing-labels -> %s, scan %v", tag, rr, bodies))
		}
	}
	if rr, ok := s.get(n, "maxlabel", nil); ok && len(svs) > 0 {
		// recorded only: the statement does not constrain maxlabel (a version without writes of its own answers 400)
		var o struct{ Maxlabel uint64 }
		json.Unmarshal(rr.Body, &o)
		mx := svs[len(svs)-1]
		if len(bodies) > 0 && bodies[len(bodies)-1] > mx {
			mx = bodies[len(bodies)-1]
		}
		switch {
		case !rr.OK():
			s.c.Count("maxlabel unavailable at a version (recorded, outside the statement)")
		case o.Maxlabel < mx:
			s.c.Count("maxlabel below a present label (recorded, outside the statement)")
		}
	}
	// a body that no longer exists (merged away / fully cleaved) must not be reported as having voxels
	for sv, b := range n.lm.m {
		if _, alive := sc.size[sv]; !alive && sv != b && sc.svSize[sv] > 0 {
			if rr, ok := s.get(n, fmt.Sprintf("size/%d", sv), nil); ok && rr.OK() {
				var o struct{ Voxels int }
				json.Unmarshal(rr.Body, &o)
				if o.Voxels != 0 {
					s.fail("C08 dead-body-has-size", "a body that was merged into another still reports voxels", fmt.Sprintf("%s: supervoxel %d is mapped to body %d, yet GET size/%d -> %s", tag, sv, b, sv, rr))
				}
			}
			break
		}
	}
}

// untouchedAncestorEpisode: two new versions in a row with no labelmap request in between, mapping-changing
// operations at the grandchild, then every version is read — the middle version for the first time.  (Per-version
// state that is set up lazily must not depend on which descendant was used first.)
func (s *c08Sess) untouchedAncestorEpisode() {
	w := s.w
	var base *wnode
	for _, x := range w.open() {
		if x.lm != nil && len(w.lmBodies(x)) >= 2 {
			base = x
		}
	}
	if base == nil || len(w.nodes) > 7 {
		return
	}
	mid := w.child(base, false)
	leaf := w.child(mid, false)
	w.log("episode: v%d -> v%d -> v%d created without any labelmap request in between", base.v, mid.v, leaf.v)
	did := 0
	if w.lmMerge(leaf) {
		did++
	}
	if w.lmCleave(leaf) {
		did++
	}
	if w.lmRenumber(leaf) {
		did++
	}
	if w.lmSplitSV(leaf) {
		did++
	}
	s.c.Count("untouched-ancestor episode")
	w.settle()
	// the middle version first, then everything else
	s.checkVersion(mid)
	for _, x := range w.nodes {
		if x != mid {
			s.checkVersion(x)
		}
	}
}

// deadSupervoxelEpisode: a supervoxel that was merged into a body loses all its voxels by an overwrite and is
// written again later (its mapping to the body is still in force)
func (s *c08Sess) deadSupervoxelEpisode() {
	w := s.w
	var n *wnode
	for _, x := range w.open() {
		if x.lm != nil {
			n = x
		}
	}
	if n == nil {
		return
	}
	blk := func(bx int, f func(x, y, z int) uint64, mutate bool) {
		b := make([]uint64, lmB*lmB*lmB)
		for z := 0; z < lmB; z++ {
			for y := 0; y < lmB; y++ {
				for x := 0; x < lmB; x++ {
					b[(z*lmB+y)*lmB+x] = f(x, y, z)
				}
			}
		}
		path := fmt.Sprintf("node/%s/lm/raw/0_1_2/%d_%d_%d/%d_%d_%d", n.uuid, lmB, lmB, lmB, bx*lmB, lmB, lmB)
		if mutate {
			path += "?mutate=true"
		}
		w.must("POST", path, u64le(b))
		for z := 0; z < lmB; z++ {
			for y := 0; y < lmB; y++ {
				copy(n.lm.vox[(lmB+z)*lmN+lmB+y][bx*lmB:bx*lmB+lmB], b[(z*lmB+y)*lmB:(z*lmB+y)*lmB+lmB])
			}
		}
		w.settle()
	}
	a, b2, c2 := w.nextSV, w.nextSV+1, w.nextSV+2
	w.nextSV += 3
	exists := false
	for z := 0; z < lmB && !exists; z++ {
		for y := 0; y < lmB && !exists; y++ {
			for _, sv := range n.lm.vox[(lmB+z)*lmN+lmB+y] {
				if sv != 0 {
					exists = true
					break
				}
			}
		}
	}
	// block (0,1,1): supervoxels a | b ; block (1,1,1): supervoxel a
	blk(0, func(x, y, z int) uint64 {
		if x < 16 {
			return a
		}
		return b2
	}, exists)
	blk(1, func(x, y, z int) uint64 { return a }, exists)
	body, _ := json.Marshal([]uint64{a, b2})
	if r := w.must("POST", "node/"+n.uuid+"/lm/merge", body); !r.OK() {
		return
	}
	n.lm.m[b2] = a
	w.log("episode: lm merge [%d %d] at v%d; then supervoxel %d loses all voxels and is written again", a, b2, n.v, b2)
	// overwrite block (0,1,1): b disappears
	blk(0, func(x, y, z int) uint64 {
		if x < 16 {
			return a
		}
		return c2
	}, true)
	// write b again into block (1,1,1)
	blk(1, func(x, y, z int) uint64 {
		if y < 8 {
			return b2
		}
		return a
	}, true)
	s.c.Count("dead-supervoxel episode")
	for _, x := range w.nodes {
		s.checkVersion(x)
	}
}

// lmRenumber: POST renumber [new, old]
func (w *World) lmRenumber(n *wnode) bool {
	bodies := w.lmBodies(n)
	if len(bodies) == 0 {
		return false
	}
	var ids []uint64
	for b := range bodies {
		ids = append(ids, b)
	}
	sort.Slice(ids, func(i, j int) bool { return ids[i] < ids[j] })
	old := ids[w.r.Intn(len(ids))]
	nl := w.nextSV + 100
	w.nextSV = nl + 1
	body, _ := json.Marshal([]uint64{nl, old})
	r, ok := w.s.HTTP("POST", "node/"+n.uuid+"/lm/renumber", body)
	if !ok || !r.OK() {
		w.log("lm renumber %d -> %d refused at v%d: %s", old, nl, n.v, r)
		return false
	}
	for _, sv := range bodies[old] {
		n.lm.m[sv] = nl
	}
	w.log("lm renumber body %d -> %d at v%d", old, nl, n.v)
	w.settle()
	return true
}

// cleaveMergeBackEpisode: the supervoxel a body is named after is cleaved out of that body and the cleaved body
// is merged back into it (at the same version or at a child): the supervoxel's explicit mapping entry has to be
// overwritten with the identity
func (s *c08Sess) cleaveMergeBackEpisode() {
	w := s.w
	var n *wnode
	for _, x := range w.open() {
		if x.lm != nil {
			n = x
		}
	}
	if n == nil {
		return
	}
	pick := func() (uint64, bool) {
		bodies := w.lmBodies(n)
		var ids []uint64
		for b, svs := range bodies {
			if len(svs) < 2 {
				continue
			}
			for _, sv := range svs {
				if sv == b {
					ids = append(ids, b)
				}
			}
		}
		sort.Slice(ids, func(i, j int) bool { return ids[i] < ids[j] })
		if len(ids) == 0 {
			return 0, false
		}
		return ids[w.r.Intn(len(ids))], true
	}
	t, ok := pick()
	for try := 0; !ok && try < 4; try++ {
		if !w.lmMerge(n) {
			w.lmIngest(n, false)
		}
		t, ok = pick()
	}
	if !ok {
		return
	}
	body, _ := json.Marshal([]uint64{t})
	r := w.must("POST", fmt.Sprintf("node/%s/lm/cleave/%d", n.uuid, t), body)
	if !r.OK() {
		return
	}
	var out struct{ CleavedLabel uint64 }
	json.Unmarshal(r.Body, &out)
	n.lm.m[t] = out.CleavedLabel
	if out.CleavedLabel >= w.nextSV {
		w.nextSV = out.CleavedLabel + 1
	}
	w.log("episode: lm cleave body %d svs [%d] -> %d at v%d (the supervoxel the body is named after)", t, t, out.CleavedLabel, n.v)
	w.settle()
	if w.r.Bool() && len(w.nodes) < 7 {
		if ch := w.child(n, false); ch != nil {
			n = ch
		}
	}
	body, _ = json.Marshal([]uint64{t, out.CleavedLabel})
	if r := w.must("POST", "node/"+n.uuid+"/lm/merge", body); !r.OK() {
		return
	}
	for sv, b := range n.lm.m {
		if b == out.CleavedLabel {
			n.lm.m[sv] = t
		}
	}
	w.log("episode: lm merge [%d %d] at v%d (cleaved body merged back)", t, out.CleavedLabel, n.v)
	w.settle()
	s.c.Count("episode cleave-eponymous-then-merge-back")
	for _, x := range w.nodes {
		if x.lm != nil {
			s.checkVersion(x)
		}
	}
}

// bodySplitEpisode: a body with several supervoxels is split by a sparse volume (POST split/<label>, enabled in
// the child's server configuration) that cuts some of its supervoxels and leaves others whole, differently per
// block.  The server chooses the new supervoxel ids, so the stored supervoxel volume is read back and validated
// (voxels of other bodies unchanged; every old supervoxel of the body is relabelled consistently per side of the
// split; new ids are fresh) before it becomes the oracle; then every view of every version is checked.
func (s *c08Sess) bodySplitEpisode() {
	w := s.w
	var n *wnode
	for _, x := range w.open() {
		if x.lm != nil {
			n = x
		}
	}
	if n == nil {
		return
	}
	pick := func() (uint64, bool) {
		var ids []uint64
		for b, svs := range w.lmBodies(n) {
			if len(svs) >= 2 {
				ids = append(ids, b)
			}
		}
		sort.Slice(ids, func(i, j int) bool { return ids[i] < ids[j] })
		if len(ids) == 0 {
			return 0, false
		}
		return ids[w.r.Intn(len(ids))], true
	}
	var label uint64
	var in func(x, y, z int) bool
	total := 0
	if w.r.Bool() {
		// directed layout: supervoxels A and B each cover half of two neighbouring blocks; they are merged, and
		// the split cuts A only in the first block and B only in the second
		sa, sb := w.nextSV, w.nextSV+1
		w.nextSV += 2
		for bx := 0; bx < 2; bx++ {
			blk := make([]uint64, lmB*lmB*lmB)
			exists := false
			for z := 0; z < lmB; z++ {
				for y := 0; y < lmB; y++ {
					for x := 0; x < lmB; x++ {
						if y < lmB/2 {
							blk[(z*lmB+y)*lmB+x] = sa
						} else {
							blk[(z*lmB+y)*lmB+x] = sb
						}
						if n.lm.vox[(lmB+z)*lmN+lmB+y][bx*lmB+x] != 0 {
							exists = true
						}
					}
				}
			}
			path := fmt.Sprintf("node/%s/lm/raw/0_1_2/%d_%d_%d/%d_%d_%d", n.uuid, lmB, lmB, lmB, bx*lmB, lmB, lmB)
			if exists {
				path += "?mutate=true"
			}
			w.must("POST", path, u64le(blk))
			for z := 0; z < lmB; z++ {
				for y := 0; y < lmB; y++ {
					copy(n.lm.vox[(lmB+z)*lmN+lmB+y][bx*lmB:bx*lmB+lmB], blk[(z*lmB+y)*lmB:(z*lmB+y)*lmB+lmB])
				}
			}
			w.settle()
		}
		body, _ := json.Marshal([]uint64{sa, sb})
		if r := w.must("POST", "node/"+n.uuid+"/lm/merge", body); !r.OK() {
			return
		}
		n.lm.m[sb] = sa
		w.log("episode: supervoxels %d and %d written over blocks (0,1,1),(1,1,1), merged into body %d at v%d", sa, sb, sa, n.v)
		w.settle()
		label = sa
		k := 4 + w.r.Intn(8)
		in = func(x, y, z int) bool {
			if z < lmB || z >= lmB+k {
				return false
			}
			return (x < k && y >= lmB && y < lmB+k) || (x >= lmB && x < lmB+k && y >= lmB+lmB/2 && y < lmB+lmB/2+k)
		}
		for z := 0; z < lmN; z++ {
			for y := 0; y < lmN; y++ {
				for x := 0; x < lmN; x++ {
					if n.lm.body(n.lm.vox[z*lmN+y][x]) == label {
						total++
					}
				}
			}
		}
	} else {
		var ok bool
		label, ok = pick()
		for try := 0; !ok && try < 4; try++ {
			if !w.lmMerge(n) {
				w.lmIngest(n, false)
			}
			label, ok = pick()
		}
		if !ok {
			return
		}
		// the split region: a slanted half-space, so that block by block other supervoxels are cut
		a, bb, cc := 1+w.r.Intn(2), w.r.Intn(2), w.r.Intn(2)
		var vals []int
		for z := 0; z < lmN; z++ {
			for y := 0; y < lmN; y++ {
				for x := 0; x < lmN; x++ {
					if n.lm.body(n.lm.vox[z*lmN+y][x]) == label {
						total++
						vals = append(vals, a*x+bb*y+cc*z)
					}
				}
			}
		}
		if total < 2 {
			return
		}
		sort.Ints(vals)
		cut := vals[len(vals)/3+w.r.Intn(len(vals)/3+1)]
		in = func(x, y, z int) bool {
			return n.lm.body(n.lm.vox[z*lmN+y][x]) == label && a*x+bb*y+cc*z < cut
		}
	}
	type span struct{ x, y, z, n int32 }
	var spans []span
	nsplit := 0
	for z := 0; z < lmN; z++ {
		for y := 0; y < lmN; y++ {
			for x := 0; x < lmN; {
				if !in(x, y, z) {
					x++
					continue
				}
				x0 := x
				for x < lmN && in(x, y, z) {
					x++
				}
				spans = append(spans, span{int32(x0), int32(y), int32(z), int32(x - x0)})
				nsplit += x - x0
			}
		}
	}
	if nsplit == 0 || nsplit == total {
		return
	}
	var buf bytes.Buffer
	buf.Write([]byte{0, 3, 0, 0})
	binary.Write(&buf, binary.LittleEndian, uint32(0))
	binary.Write(&buf, binary.LittleEndian, uint32(len(spans)))
	for _, sp := range spans {
		binary.Write(&buf, binary.LittleEndian, sp)
	}
	r, alive := s.ch.HTTP("POST", fmt.Sprintf("node/%s/lm/split/%d", n.uuid, label), buf.Bytes())
	w.log("episode: lm split body %d (%d of %d voxels, %d runs, first run %v) at v%d -> %d %s", label, nsplit, total, len(spans), spans[0], n.v, r.Code, trunc(string(r.Body)))
	if !alive {
		s.dead = true
		s.fail("C08 server-died body-split", "the server process died during a body split", s.ch.StderrTail(14))
		return
	}
	if !r.OK() {
		s.fail("C08 body-split-fails", "a body split by a well-formed sparse volume inside the body fails", r.String())
		return
	}
	var out struct {
		Label uint64 `json:"label"`
	}
	json.Unmarshal(r.Body, &out)
	w.settle()
	rr, _ := s.get(n, fmt.Sprintf("raw/0_1_2/%d_%d_%d/0_0_0?supervoxels=true", lmN, lmN, lmN), nil)
	if !rr.OK() || len(rr.Body) != lmN*lmN*lmN*8 {
		s.fail("C08 raw-fails", "the supervoxel volume cannot be read after a body split", rr.String())
		return
	}
	type key struct {
		o    uint64
		side bool
	}
	oldIDs := map[uint64]bool{}
	for _, row := range n.lm.vox {
		for _, sv := range row {
			oldIDs[sv] = true
		}
	}
	relabel := map[key]uint64{}
	owner := map[uint64]key{}
	nv := make([][]uint64, len(n.lm.vox))
	for z := 0; z < lmN; z++ {
		for y := 0; y < lmN; y++ {
			row := make([]uint64, lmN)
			for x := 0; x < lmN; x++ {
				o := n.lm.vox[z*lmN+y][x]
				g := binary.LittleEndian.Uint64(rr.Body[((z*lmN+y)*lmN+x)*8:])
				row[x] = g
				if n.lm.body(o) != label {
					if g != o {
						s.fail("C08 body-split-touches-others", "a body split changed a voxel that does not belong to the split body", fmt.Sprintf("voxel (%d,%d,%d): supervoxel %d -> %d", x, y, z, o, g))
						return
					}
					continue
				}
				k := key{o, in(x, y, z)}
				if prev, ok := relabel[k]; ok && prev != g {
					s.fail("C08 body-split-inconsistent", "after a body split the voxels of one supervoxel on one side of the split carry different supervoxel ids", fmt.Sprintf("voxel (%d,%d,%d): old supervoxel %d, in split=%v: %d and %d", x, y, z, o, k.side, prev, g))
					return
				}
				relabel[k] = g
				if ow, ok := owner[g]; ok && ow != k {
					s.fail("C08 body-split-inconsistent", "after a body split one supervoxel id covers voxels of two old supervoxels or of both sides of the split", fmt.Sprintf("supervoxel %d: (%d,split=%v) and (%d,split=%v)", g, ow.o, ow.side, k.o, k.side))
					return
				}
				owner[g] = k
				if g == 0 || (g != o && oldIDs[g]) {
					s.fail("C08 body-split-inconsistent", "after a body split a voxel carries label 0 or a supervoxel id that was already in use", fmt.Sprintf("voxel (%d,%d,%d): %d -> %d", x, y, z, o, g))
					return
				}
			}
			nv[z*lmN+y] = row
		}
	}
	n.lm.vox = nv
	for g, k := range owner {
		if k.side {
			n.lm.m[g] = out.Label
		} else {
			n.lm.m[g] = label
		}
		if g >= w.nextSV {
			w.nextSV = g + 1
		}
	}
	if out.Label >= w.nextSV {
		w.nextSV = out.Label + 1
	}
	s.c.Count("episode body-split")
	for _, x := range w.nodes {
		if x.lm != nil {
			s.checkVersion(x)
		}
	}
	// a cleave of the remainder afterwards moves exactly what the index lists
	if w.lmCleave(n) {
		s.checkVersion(n)
	}
}

// indexEchoEpisode: the index of a body, as the server serves it, is ingested again through POST index/<label>
// (data consistent with the voxels); nothing any view shows may change
func (s *c08Sess) indexEchoEpisode() {
	w := s.w
	var n *wnode
	for _, x := range w.open() {
		if x.lm != nil {
			n = x
		}
	}
	if n == nil {
		return
	}
	var ids []uint64
	for b := range w.lmBodies(n) {
		ids = append(ids, b)
	}
	if len(ids) == 0 {
		return
	}
	sort.Slice(ids, func(i, j int) bool { return ids[i] < ids[j] })
	b := ids[w.r.Intn(len(ids))]
	r, ok := s.get(n, fmt.Sprintf("index/%d", b), nil)
	if !ok || !r.OK() || len(r.Body) == 0 {
		return
	}
	pr, alive := s.ch.HTTP("POST", fmt.Sprintf("node/%s/lm/index/%d", n.uuid, b), r.Body)
	w.log("episode: index of body %d (%d bytes, as served) ingested again at v%d -> %d %s", b, len(r.Body), n.v, pr.Code, trunc(string(pr.Body)))
	if !alive {
		s.dead = true
		s.fail("C08 server-died index-ingest", "the server process died during an index ingest", s.ch.StderrTail(14))
		return
	}
	if !pr.OK() {
		s.fail("C08 index-ingest-fails", "ingesting the index of a body exactly as the server serves it is refused", pr.String())
		return
	}
	w.settle()
	s.c.Count("episode index-echo")
	s.checkVersion(n)
}

// decodeBinaryBlocks: the format=blocks sparse volume (header gx,gy,gz,label; per block: offset, content flag,
// then per 8x8x8 sub-block a flag and, for mixed sub-blocks, a 64-byte bit mask) as one run per voxel
func decodeBinaryBlocks(b []byte) ([][4]int32, string) {
	if len(b) == 0 {
		return nil, ""
	}
	if len(b) < 20 {
		return nil, fmt.Sprintf("binary blocks header of %d bytes", len(b))
	}
	gx, gy, gz := int32(binary.LittleEndian.Uint32(b[0:])), int32(binary.LittleEndian.Uint32(b[4:])), int32(binary.LittleEndian.Uint32(b[8:]))
	if gx <= 0 || gy <= 0 || gz <= 0 || gx > 64 || gy > 64 || gz > 64 {
		return nil, fmt.Sprintf("binary blocks header with %d x %d x %d sub-blocks", gx, gy, gz)
	}
	p := 20
	var runs [][4]int32
	for p < len(b) {
		if p+13 > len(b) {
			return nil, "truncated block header"
		}
		ox, oy, oz := int32(binary.LittleEndian.Uint32(b[p:])), int32(binary.LittleEndian.Uint32(b[p+4:])), int32(binary.LittleEndian.Uint32(b[p+8:]))
		flag := b[p+12]
		p += 13
		switch flag {
		case 0:
		case 1:
			for z := int32(0); z < gz*8; z++ {
				for y := int32(0); y < gy*8; y++ {
					runs = append(runs, [4]int32{ox, oy + y, oz + z, gx * 8})
				}
			}
		case 2:
			for sz := int32(0); sz < gz; sz++ {
				for sy := int32(0); sy < gy; sy++ {
					for sx := int32(0); sx < gx; sx++ {
						if p >= len(b) {
							return nil, "truncated sub-block flag"
						}
						f := b[p]
						p++
						switch f {
						case 0:
						case 1:
							for z := int32(0); z < 8; z++ {
								for y := int32(0); y < 8; y++ {
									runs = append(runs, [4]int32{ox + sx*8, oy + sy*8 + y, oz + sz*8 + z, 8})
								}
							}
						case 2:
							if p+64 > len(b) {
								return nil, "truncated sub-block mask"
							}
							for i := int32(0); i < 512; i++ {
								if b[p+int(i>>3)]&(1<<uint(i%8)) != 0 {
									runs = append(runs, [4]int32{ox + sx*8 + i%8, oy + sy*8 + (i/8)%8, oz + sz*8 + i/64, 1})
								}
							}
							p += 64
						default:
							return nil, fmt.Sprintf("sub-block content flag %d", f)
						}
					}
				}
			}
		default:
			return nil, fmt.Sprintf("block content flag %d", flag)
		}
	}
	return runs, ""
}

// sparsevolGapEpisode (own instance, own oracle): a body whose voxels lie in two blocks of one block row that are
// not neighbours — the block between holds none of it — with runs that end on the first block's east face and
// start on the later block's west face; sparse volumes (rles, srles), size and coarse volume are compared with
// the written voxels
func (s *c08Sess) sparsevolGapEpisode() {
	w := s.w
	name := fmt.Sprintf("gap%d", w.r.Intn(1<<30))
	var n *wnode
	for _, x := range w.open() {
		n = x
	}
	if n == nil {
		return
	}
	if r := w.must("POST", "repo/"+n.uuid+"/instance", []byte(fmt.Sprintf(`{"typename":"labelmap","dataname":%q,"BlockSize":"32,32,32"}`, name))); !r.OK() {
		return
	}
	a, b := uint64(501+w.r.Intn(50)), uint64(601+w.r.Intn(50))
	gap := 1 + w.r.Intn(2) // blocks between the two
	k := 4 + w.r.Intn(12)
	want := map[[3]int]bool{}
	put := func(bx int, sv uint64, x0, x1 int) bool {
		blk := make([]uint64, 32*32*32)
		for z := 0; z < k; z++ {
			for y := 0; y < k; y++ {
				for x := x0; x < x1; x++ {
					blk[(z*32+y)*32+x] = sv
					want[[3]int{bx*32 + x, y, z}] = true
				}
			}
		}
		r, ok := s.ch.HTTP("POST", fmt.Sprintf("node/%s/%s/raw/0_1_2/32_32_32/%d_0_0", n.uuid, name, bx*32), u64le(blk))
		return ok && r.OK()
	}
	if !put(0, a, 32-k, 32) || !put(1+gap, b, 0, k) {
		return
	}
	s.ch.AskT("SETTLE "+n.uuid+" "+name, 20*time.Second)
	body, _ := json.Marshal([]uint64{a, b})
	if r, ok := s.ch.HTTP("POST", "node/"+n.uuid+"/"+name+"/merge", body); !ok || !r.OK() {
		return
	}
	s.ch.AskT("SETTLE "+n.uuid+" "+name, 20*time.Second)
	hist := fmt.Sprintf("instance %s: supervoxel %d in block (0,0,0) at x %d..31, supervoxel %d in block (%d,0,0) at x 0..%d, rows y,z < %d; merge [%d %d]", name, a, 32-k, b, 1+gap, k-1, k, a, b)
	s.c.Count("episode sparsevol-gap")
	for _, f := range []string{"rles", "srles"} {
		r, ok := s.ch.HTTP("GET", fmt.Sprintf("node/%s/%s/sparsevol/%d?format=%s", n.uuid, name, a, f), nil)
		if !ok || !r.OK() {
			s.fail("C08 sparsevol-fails", "a sparse volume of an existing body cannot be read", hist+"\n"+r.String())
			return
		}
		var runs [][4]int32
		var e string
		if f == "rles" {
			runs, e = decodeSparse(r.Body)
		} else {
			if len(r.Body)%16 != 0 {
				e = "streaming runs not a multiple of 16 bytes"
			}
			for i := 0; i+16 <= len(r.Body); i += 16 {
				var q [4]int32
				for j := 0; j < 4; j++ {
					q[j] = int32(binary.LittleEndian.Uint32(r.Body[i+4*j:]))
				}
				runs = append(runs, q)
			}
		}
		if e != "" {
			s.fail("C08 sparsevol-malformed", "a sparse volume cannot be decoded", hist+"\n"+e)
			return
		}
		got := map[[3]int]bool{}
		for _, q := range runs {
			for x := int(q[0]); x < int(q[0])+int(q[3]); x++ {
				got[[3]int{x, int(q[1]), int(q[2])}] = true
			}
		}
		s.c.Eval("sparsevol gap "+f+" "+hist, true)
		extra, missing := 0, 0
		var ex, mi [3]int
		for p := range got {
			if !want[p] {
				extra++
				ex = p
			}
		}
		for p := range want {
			if !got[p] {
				missing++
				mi = p
			}
		}
		if extra > 0 || missing > 0 {
			s.fail("C08 sparsevol-differs", "the sparse volume of a body is not the set of voxels mapped to it",
				fmt.Sprintf("%s\nGET sparsevol/%d?format=%s: %d voxels reported that the body does not have (e.g. %v), %d voxels of the body missing (e.g. %v)", hist, a, f, extra, ex, missing, mi))
			return
		}
	}
}

func runC08(c *Ctx) {
	c.Rule = "a case is one body (or one whole-version read) of one version of a labelmap after a generated history of block ingests, mutating block overwrites (new and re-used supervoxels, supervoxels spanning blocks, background), merges, cleaves, supervoxel splits and renumberings interleaved with commit / new version / branch, compared with a scan of the written voxels under that version's supervoxel→body mapping: size, supervoxels, supervoxel-sizes, index (per block and supervoxel), sparsevol (rles, srles), sparsevol-coarse, sparsevol-size, raw and blocks (mapped and supervoxels), labels, label/<pt>, mapping, sizes, listlabels, existing-labels, maxlabel — at every version, so ancestors and siblings are re-checked after later operations; or one label-index operation compared with the Lean model. non-trivial = the body has several supervoxels or spans several blocks; distinct by content"
	c.c08Index(map[bool]int{false: 600, true: 6000}[c.Thorough])
	hist, steps, every := 4, 30, 7
	if c.Thorough {
		hist, steps, every = 10, 60, 6
	}
	for h := 0; h < hist; h++ {
		dir := scratchDir("c08")
		ch, msg := StartChild(dir, nil)
		if ch == nil {
			c.Report("H", "C08 child", "cannot start server process", msg)
			os.RemoveAll(dir)
			return
		}
		w := NewWorld(c, ch, c.Rng.Fork(), true, false, false)
		s := &c08Sess{c: c, w: w, ch: ch}
		episodeAt := steps/3 + w.r.Intn(steps/3)
		for i := 0; i < steps && !s.dead; i++ {
			if i == episodeAt {
				s.untouchedAncestorEpisode()
				continue
			}
			if i == episodeAt+3 {
				s.deadSupervoxelEpisode()
				continue
			}
			if i == episodeAt+6 {
				s.cleaveMergeBackEpisode()
				continue
			}
			if i == episodeAt+7 || i == episodeAt+12 {
				s.indexEchoEpisode()
				continue
			}
			if i == episodeAt+9 {
				s.sparsevolGapEpisode()
				continue
			}
			if i == episodeAt+8 || i == episodeAt+11 || i == episodeAt+13 {
				s.bodySplitEpisode()
				continue
			}
			open := w.open()
			if len(open) == 0 || w.r.Chance(0.12) {
				if len(w.nodes) < 6 {
					w.child(w.nodes[w.r.Intn(len(w.nodes))], w.r.Chance(0.4))
				}
				continue
			}
			n := open[w.r.Intn(len(open))]
			nb := len(w.lmBodies(n))
			switch k := w.r.Intn(20); {
			case k < 7 || nb == 0:
				w.lmIngest(n, false)
				c.Count("op ingest/overwrite block")
			case k < 11:
				if w.lmMerge(n) {
					c.Count("op merge")
				}
			case k < 14:
				if w.lmCleave(n) {
					c.Count("op cleave")
				}
			case k < 17:
				if w.lmSplitSV(n) {
					c.Count("op split-supervoxel")
				}
			case k < 19:
				if w.lmRenumber(n) {
					c.Count("op renumber")
				}
			default:
				w.commit(n)
				c.Count("op commit")
			}
			if ch.dead {
				s.dead = true
				tail := ch.StderrTail(14)
				c.Report("O", "C08 server-died "+deathSite(tail), "the server process died during the labelmap workload", "stderr:\n"+tail+"\nhistory:\n"+strings.Join(w.hist, "\n"))
				break
			}
			if (i+1)%every == 0 || i == steps-1 {
				w.settle()
				for _, x := range w.nodes {
					s.checkVersion(x)
				}
				c.Count("full check of all versions")
			}
		}
		ch.Stop("EXIT")
		os.RemoveAll(dir)
		if len(c.Findings) > 8 {
			return
		}
	}
}
