package main

import (
	"bytes"
	"os"
	"encoding/hex"
	"encoding/json"
	"fmt"
	"regexp"
	"sort"
	"strings"

	"github.com/janelia-flyem/dvid/datastore"
	"github.com/janelia-flyem/dvid/dvid"
	"github.com/janelia-flyem/dvid/storage"
)

func init() { register("C19", runC19) }

// rawPairs: every raw key-value pair of one instance's key range, in store order.
func rawPairs(uuid, inst string) ([][2][]byte, uint32, error) {
	d, err := datastore.GetDataByUUIDName(dvid.UUID(uuid), dvid.InstanceName(inst))
	if err != nil {
		return nil, 0, err
	}
	store, err := datastore.GetOrderedKeyValueDB(d)
	if err != nil {
		return nil, 0, err
	}
	ctx := datastore.NewVersionedCtx(d, 1)
	minK, maxK := ctx.KeyRange()
	ch := make(chan *storage.KeyValue, 1000)
	var out [][2][]byte
	done := make(chan struct{})
	go func() {
		for kv := range ch {
			if kv == nil {
				break
			}
			out = append(out, [2][]byte{append([]byte(nil), kv.K...), append([]byte(nil), kv.V...)})
		}
		close(done)
	}()
	err = store.RawRangeQuery(minK, maxK, false, ch, nil)
	<-done
	return out, uint32(d.InstanceID()), err
}

var c19Reads = map[string][]string{
	"kv":   {"keys", "key/onlyonsiblings", "key/a", "key/ab", "key/b", "key/k1", "key/k2", "keyrange/a/z", "keyrangevalues/a/z?json=true"},
	"ann":  {"elements/64_64_64/0_0_0", "all-elements", "tag/t1", "tag/t2", "tag/t3", "blocks/2_2_2/0_0_0"},
	"roi":  {"roi", "mask/0_1_2/96_96_96/0_0_0", "partition?batchsize=2"},
	"gray": {"raw/0_1_2/64_64_64/0_0_0", "raw/0_1_2/32_32_32/32_0_32"},
}

func readInst(uuid, inst, path string) string {
	r, _ := inproc{}.HTTP("GET", "node/"+uuid+"/"+inst+"/"+path, nil)
	body := canonBody(inst+"/"+path, r.Body)
	if r.Code >= 500 {
		body = reqIDre.ReplaceAll(body, []byte("request <id>"))
	}
	body = rawKeyRe.ReplaceAll(body, []byte("key [<raw key>]")) // error texts quote the raw key, which holds the instance id
	if r.Code >= 400 {
		// error texts also name the instance and its local id: both differ between a source and its copy by design
		body = localIDRe.ReplaceAll(body, []byte("local id <id>"))
		body = bytes.ReplaceAll(body, []byte(`"`+inst+`"`), []byte(`"<instance>"`))
	}
	if len(body) > 200 && !(r.Code >= 400 && len(body) < 2000) {
		return fmt.Sprintf("%d %x…(%d bytes) %s", r.Code, sha8(body), len(body), string(body[:80]))
	}
	return fmt.Sprintf("%d %s", r.Code, string(body))
}

var rawKeyRe = regexp.MustCompile(`key \[[0-9 ]+\]`)
var localIDRe = regexp.MustCompile(`local id [0-9]+`)

func sha8(b []byte) []byte {
	h := fnvBytes(b)
	return []byte{byte(h >> 56), byte(h >> 48), byte(h >> 40), byte(h >> 32), byte(h >> 24), byte(h >> 16), byte(h >> 8), byte(h)}
}

func fnvBytes(b []byte) uint64 {
	h := uint64(14695981039346656037)
	for _, x := range b {
		h = (h ^ uint64(x)) * 1099511628211
	}
	return h
}

// instance names are embedded in some responses (info): make them comparable
func normName(s, from, to string) string { return strings.ReplaceAll(s, from, to) }

// c19CopyBoundaries: full and flattened copies of an instance whose number of stored / visible key-value pairs
// sits on and around the copy's internal batch sizes (999, 1000, 1001, 2000 visible keys at the copied version,
// reached through inherited, overwritten and deleted entries)
func c19CopyBoundaries(c *Ctx) {
	ns := []int{999, 1000, 1001}
	if c.Thorough {
		ns = append(ns, 2000, 3000)
	}
	for _, n := range ns {
		func() {
			OpenServer()
			defer CloseServer()
			root := NewRepo()
			NewInstance(root, "keyvalue", "kv", nil)
			key := func(i int) string { return fmt.Sprintf("k%05d", i) }
			for i := 0; i < n+10; i++ {
				Post("node/"+root+"/kv/key/"+key(i), []byte(fmt.Sprintf("root-%d", i)))
			}
			Commit(root)
			child, _ := NewVersion(root)
			for i := 0; i < 10; i++ {
				Delete("node/" + child + "/kv/key/" + key(3*i))
			}
			for i := 0; i < 7; i++ {
				Post("node/"+child+"/kv/key/"+key(100+i), []byte(fmt.Sprintf("child-%d", i)))
			}
			datastore.BlockOnUpdating(dvid.UUID(root), "kv")
			for _, mode := range []string{"flatten", "all"} {
				tgt := "kv" + mode
				cfg := dvid.NewConfig()
				cfg.Set("transmit", mode)
				if err := datastore.CopyInstance(dvid.UUID(child), "kv", dvid.InstanceName(tgt), cfg); err != nil {
					c.Report("O", "C19 copy-fails kv", "CopyInstance fails: "+err.Error(), fmt.Sprintf("%d visible keys, transmit=%s", n, mode))
					continue
				}
				a, b := Get("node/"+child+"/kv/keys"), Get("node/"+child+"/"+tgt+"/keys")
				c.Eval(fmt.Sprintf("copy boundary %d %s", n, mode), true)
				c.Count("copy-boundary-" + mode)
				if string(a.Body) != string(b.Body) {
					var ka, kb []string
					json.Unmarshal(a.Body, &ka)
					json.Unmarshal(b.Body, &kb)
					in := map[string]bool{}
					for _, k := range kb {
						in[k] = true
					}
					missing := []string{}
					for _, k := range ka {
						if !in[k] && len(missing) < 5 {
							missing = append(missing, k)
						}
					}
					c.Report("O", "C19 copy-loses-keys "+mode, "a copy of an instance does not list the keys the source lists at the copied version",
						fmt.Sprintf("history: %d keys at the root, 10 deleted and 7 overwritten at the child (%d visible); CopyInstance transmit=%s at the child\nsource lists %d keys, copy lists %d; missing from the copy: %v", n+10, n, mode, len(ka), len(kb), missing))
					continue
				}
				for _, i := range []int{1, 100, 106, n + 9, n + 8} {
					x, y := Get("node/"+child+"/kv/key/"+key(i)), Get("node/"+child+"/"+tgt+"/key/"+key(i))
					if x.Code != y.Code || string(x.Body) != string(y.Body) {
						c.Report("O", "C19 copy-value-differs "+mode, "a value read from the copy differs from the source's", fmt.Sprintf("key %s: source %s copy %s", key(i), x, y))
					}
				}
			}
		}()
	}
}

// c19InstanceIdEdges: the copied instance's numeric id sits at a byte boundary (low byte 0xFF, two low bytes 0xFFFF):
// a server configured to hand out instance ids from there; the copy (flattened and with all versions) must read
// like the source.
func c19InstanceIdEdges(c *Ctx) {
	starts := []string{"255", "65535", "511"}
	if c.Thorough {
		starts = append(starts, "16777215", "254", "256", "65534")
	}
	for _, start := range starts {
		func() {
			dir := scratchDir("c19i")
			defer os.RemoveAll(dir)
			ch, msg := StartChild(dir, []string{"VERIF_IID_START=" + start})
			if ch == nil {
				c.Report("H", "C19 child-start", msg, "")
				return
			}
			defer ch.Kill()
			resp, _ := ch.HTTP("POST", "repos", []byte(`{"alias":"i","description":"d"}`))
			root := jsonField(resp.Body, "root")
			ch.HTTP("POST", "repo/"+root+"/instance", []byte(`{"typename":"keyvalue","dataname":"kv"}`))
			iid, _ := ch.Ask("IID " + root + " kv")
			for i := 0; i < 12; i++ {
				ch.HTTP("POST", fmt.Sprintf("node/%s/kv/key/k%02d", root, i), []byte(fmt.Sprintf("root-%d", i)))
			}
			ch.HTTP("POST", "node/"+root+"/commit", []byte(`{"note":"c"}`))
			vr, _ := ch.HTTP("POST", "node/"+root+"/newversion", []byte(`{"note":"v"}`))
			child := jsonField(vr.Body, "child")
			ch.HTTP("DELETE", "node/"+child+"/kv/key/k03", nil)
			ch.HTTP("POST", "node/"+child+"/kv/key/k05", []byte("child-5"))
			ch.HTTP("POST", "node/"+child+"/kv/key/zz", []byte("child-zz"))
			for _, mode := range []string{"flatten", "all"} {
				tgt := "kv" + mode
				if out, _ := ch.Ask(fmt.Sprintf("COPY %s kv %s %s", child, tgt, mode)); !strings.HasPrefix(out, "ok") {
					c.Report("O", "C19 copy-fails kv idedge", "CopyInstance fails: "+out, "source instance id "+iid)
					continue
				}
				c.Eval("copy source-id "+strings.TrimSpace(iid)+" "+mode, true)
				c.Count("copy-id-edge-" + mode)
				vers := []string{child}
				if mode == "all" {
					vers = append(vers, root)
				}
				for _, u := range vers {
					for _, path := range []string{"keys", "key/k00", "key/k03", "key/k05", "key/zz", "keyrangevalues/a/zzz?json=true"} {
						a, _ := ch.HTTP("GET", "node/"+u+"/kv/"+path, nil)
						b, _ := ch.HTTP("GET", "node/"+u+"/"+tgt+"/"+path, nil)
						if a.Code != b.Code || (a.OK() && string(a.Body) != string(b.Body)) {
							c.Report("O", "C19 copy-differs idedge "+mode, "a read from a copy of an instance differs from the same read from the source",
								fmt.Sprintf("server handing out instance ids from %s: keyvalue instance kv has id %s; 12 keys at the root, committed; child: k03 deleted, k05 overwritten, zz added\nCopyInstance(child, kv -> %s, transmit=%s)\nGET %s at %s\n  source: %s\n  copy:   %s",
									start, strings.TrimSpace(iid), tgt, mode, path, map[bool]string{true: "the child", false: "the root"}[u == child], a, b))
							return
						}
					}
				}
			}
		}()
	}
}

// c19CopyThenRestart: instances with non-default settings (background value, block size) are copied and the
// datastore is closed and reopened right after the copy, with no other metadata change in between; the copy must
// still read like the source at every version
func c19CopyThenRestart(c *Ctx) {
	for _, cfgv := range []map[string]string{{"Background": "9", "BlockSize": "32,32,32"}, {"Background": "0", "BlockSize": "16,16,16"}} {
		if nf := len(c.Findings); nf > 0 && strings.HasPrefix(c.Findings[nf-1].Sig, "C19 copy-differs-after-restart") {
			return // a copy that lost its settings can take the process down on the next geometry: one report is enough
		}
		func() {
			OpenServer()
			defer CloseServer()
			root := NewRepo()
			if r := NewInstance(root, "uint8blk", "img", cfgv); !r.OK() {
				c.Report("H", "C19 instance", r.String(), "")
				return
			}
			bs := 32
			if cfgv["BlockSize"] == "16,16,16" {
				bs = 16
			}
			rng := c.Rng.Fork()
			Post(fmt.Sprintf("node/%s/img/raw/0_1_2/%d_%d_%d/0_0_0", root, bs, bs, bs), rng.Bytes(bs*bs*bs))
			Commit(root)
			child, _ := NewVersion(root)
			Post(fmt.Sprintf("node/%s/img/raw/0_1_2/%d_%d_%d/%d_0_0", child, bs, bs, bs, bs), rng.Bytes(bs*bs*bs))
			datastore.BlockOnUpdating(dvid.UUID(root), "img")
			cfg := dvid.NewConfig()
			if err := datastore.CopyInstance(dvid.UUID(child), "img", "imgcopy", cfg); err != nil {
				c.Report("O", "C19 copy-fails img", "CopyInstance fails: "+err.Error(), fmt.Sprint(cfgv))
				return
			}
			reads := []string{fmt.Sprintf("raw/0_1_2/%d_%d_%d/0_0_0", 3*bs, 2*bs, 2*bs), fmt.Sprintf("raw/0_1_2/%d_%d_%d/%d_%d_0", bs, bs, bs, bs/2, bs/2), "info"}
			cmp := func(when string) bool {
				for _, u := range []string{root, child} {
					for _, p := range reads {
						a, b := readInst(u, "img", p), normName(readInst(u, "imgcopy", p), "imgcopy", "img")
						if p == "info" {
							// only the settings of the instance are compared
							a, b = c19Settings(a), c19Settings(b)
						}
						c.Eval("copy-then-restart "+when+" "+p+" "+fmt.Sprint(cfgv), true)
						if a != b {
							c.Report("O", "C19 copy-differs-after-restart "+strings.SplitN(p, "/", 2)[0], "a read of the copy differs from the same read of the source "+when,
								fmt.Sprintf("instance uint8blk %v: written, committed, written at a child, CopyInstance at the child, %s\nGET %s\nsource: %s\ncopy:   %s", cfgv, when, p, a, b))
							return false
						}
					}
				}
				return true
			}
			if !cmp("right after the copy") {
				return
			}
			datastore.CloseReopenTest()
			c.Count("copy-then-restart")
			cmp("after the datastore was closed and reopened")
		}()
	}
}

var c19SettingsRe = regexp.MustCompile(`"(Background|BlockSize|VoxelSize|VoxelUnits|Interpolable|Values)":\s*("[^"]*"|\[[^\]]*\]|[0-9a-z.]+)`)

func c19Settings(info string) string {
	return strings.Join(c19SettingsRe.FindAllString(info, -1), " ")
}

func runC19(c *Ctx) {
	c.Rule = "a case is one (history, source instance, copy mode, version): a generated write/delete history over a branched DAG with merges in keyvalue, annotation, roi and uint8blk instances, datastore.CopyInstance full or flattened at a version, then every read endpoint of source and copy compared at every version (full) or at the flatten version, the raw keys of the copy compared with the model's rewrite of the source's raw keys, and the source's own reads and raw keys compared before and after; non-trivial when the compared version sees inherited, overwritten or deleted data (it is not the version of the last write of everything it reads)"
	quietLogs()
	c19CopyBoundaries(c)
	c19CopyThenRestart(c)
	c19InstanceIdEdges(c)
	worlds := 2
	steps := 60
	if c.Thorough {
		worlds, steps = 10, 150
	}
	for wi := 0; wi < worlds; wi++ {
		func() {
			OpenServer()
			defer CloseServer()
			r := c.Rng.Fork()
			w := NewWorld(c, inproc{}, r, false, true, false)
			NewInstance(w.root, "roi", "roi", map[string]string{"BlockSize": "32,32,32"})
			NewInstance(w.root, "uint8blk", "gray", map[string]string{"BlockSize": "32,32,32"})
			extra := func(n *wnode) {
				switch r.Intn(4) {
				case 0:
					var spans []string
					for i := 0; i < 1+r.Intn(3); i++ {
						x0 := r.Intn(3)
						spans = append(spans, fmt.Sprintf("[%d,%d,%d,%d]", r.Intn(3), r.Intn(3), x0, x0+r.Intn(2)))
					}
					w.must("POST", "node/"+n.uuid+"/roi/roi", []byte("["+strings.Join(spans, ",")+"]"))
					w.log("roi post %v at v%d", spans, n.v)
				case 1:
					w.s.HTTP("DELETE", "node/"+n.uuid+"/roi/roi", nil)
					w.log("roi delete at v%d", n.v)
				default:
					ox, oy, oz := 32*r.Intn(2), 32*r.Intn(2), 32*r.Intn(2)
					w.must("POST", fmt.Sprintf("node/%s/gray/raw/0_1_2/32_32_32/%d_%d_%d", n.uuid, ox, oy, oz), r.Bytes(32*32*32))
					w.log("gray block %d_%d_%d at v%d", ox, oy, oz, n.v)
				}
			}
			for i := 0; i < steps; i++ {
				if r.Chance(0.25) {
					if o := w.open(); len(o) > 0 {
						extra(o[r.Intn(len(o))])
						continue
					}
				}
				w.Step()
			}
			// merges of committed versions, then writes and deletes below the merge
			for m := 0; m < 2 && len(w.nodes) >= 3; m++ {
				a, b := w.nodes[r.Intn(len(w.nodes))], w.nodes[r.Intn(len(w.nodes))]
				if a == b {
					continue
				}
				w.commit(a)
				w.commit(b)
				uuid, resp := Merge([]string{a.uuid, b.uuid})
				if !resp.OK() || uuid == "" {
					c.Count("merge-refused")
					continue
				}
				maxV := 0
				for _, n := range w.nodes {
					if n.v > maxV {
						maxV = n.v
					}
				}
				mn := &wnode{uuid: uuid, v: maxV + 1, parents: []int{a.v, b.v}, kv: map[string]string{}, ann: map[[3]int32]annElem{}, nj: map[string]map[string]interface{}{}}
				w.nodes = append(w.nodes, mn)
				w.log("merge v%d = v%d + v%d", mn.v, a.v, b.v)
				c.Count("merge")
				for i := 0; i < 3; i++ {
					k := worldKeys[r.Intn(len(worldKeys))]
					if r.Bool() {
						w.s.HTTP("POST", "node/"+uuid+"/kv/key/"+k, []byte(fmt.Sprintf("m%d-%d", mn.v, i)))
						w.log("kv post %s at merge v%d", k, mn.v)
					} else {
						w.s.HTTP("DELETE", "node/"+uuid+"/kv/key/"+k, nil)
						w.log("kv delete %s at merge v%d", k, mn.v)
					}
				}
			}
			// directed: the same keys deleted on sibling branches of a version that holds them, the second sibling
			// created later (higher version id), with and without a put in between
			{
				p := w.nodes[r.Intn(len(w.nodes))]
				w.commit(p)
				for _, k := range worldKeys {
					// make sure the parent line holds values: write them in a first child
					_ = k
				}
				base := w.child(p, true)
				if base != nil {
					for _, k := range worldKeys {
						w.s.HTTP("POST", "node/"+base.uuid+"/kv/key/"+k, []byte("base-"+k))
					}
					w.log("kv put all keys at v%d", base.v)
					w.commit(base)
					s1 := w.child(base, true)
					s2 := w.child(base, true)
					if s1 != nil && s2 != nil {
						for i, k := range worldKeys {
							w.s.HTTP("DELETE", "node/"+s1.uuid+"/kv/key/"+k, nil)
							if i%2 == 0 {
								w.s.HTTP("DELETE", "node/"+s2.uuid+"/kv/key/"+k, nil)
							} else {
								w.s.HTTP("POST", "node/"+s2.uuid+"/kv/key/"+k, []byte("s2-"+k))
							}
						}
						w.log("kv delete all keys at v%d; delete/put alternately at sibling v%d", s1.v, s2.v)
						s3 := w.child(base, true)
						if s3 != nil {
							for _, k := range worldKeys {
								w.s.HTTP("DELETE", "node/"+s3.uuid+"/kv/key/"+k, nil)
							}
							w.log("kv delete all keys at third sibling v%d", s3.v)
						}
						c.Count("directed-sibling-deletes")
					}
					// directed: sibling branches that independently store byte-identical values (same key-value
					// pairs, the same ROI spans, the same gray block) while their common parent holds other values
					t1 := w.child(base, true)
					t2 := w.child(base, true)
					if t1 != nil && t2 != nil {
						blk := r.Bytes(32 * 32 * 32)
						for _, t := range []*wnode{t1, t2} {
							for _, k := range worldKeys {
								w.s.HTTP("POST", "node/"+t.uuid+"/kv/key/"+k, []byte("same-"+k))
							}
							w.s.HTTP("POST", "node/"+t.uuid+"/kv/key/onlyonsiblings", []byte("same"))
							w.must("POST", "node/"+t.uuid+"/roi/roi", []byte("[[2,2,1,2],[2,1,0,0]]"))
							w.must("POST", fmt.Sprintf("node/%s/gray/raw/0_1_2/32_32_32/32_32_32", t.uuid), blk)
						}
						w.log("identical kv values, ROI spans and gray block stored at siblings v%d and v%d", t1.v, t2.v)
						c.Count("directed-sibling-identical")
					}
				}
			}
			w.settle()
			insts := []string{"kv", "ann", "roi", "gray"}
			before := map[string]string{}
			rawBefore := map[string]string{}
			for _, in := range insts {
				for _, n := range w.nodes {
					for _, p := range c19Reads[in] {
						before[fmt.Sprintf("v%d:%s/%s", n.v, in, p)] = readInst(n.uuid, in, p)
					}
				}
				ps, _, _ := rawPairs(w.root, in)
				var sb strings.Builder
				for _, kv := range ps {
					sb.WriteString(hex.EncodeToString(kv[0]) + "=" + hex.EncodeToString(sha8(kv[1])) + ";")
				}
				rawBefore[in] = sb.String()
				c.CountN("raw-pairs-"+in, len(ps))
			}
			hist := func() string { return strings.Join(w.hist, "\n") }
			for _, in := range insts {
				// ---- full copy
				tgt := in + "c"
				cfg := dvid.NewConfig()
				if err := datastore.CopyInstance(dvid.UUID(w.nodes[r.Intn(len(w.nodes))].uuid), dvid.InstanceName(in), dvid.InstanceName(tgt), cfg); err != nil {
					c.Report("O", "C19 copy-fails "+in, "CopyInstance fails: "+err.Error(), hist())
					continue
				}
				c.Count("copy-full-" + in)
				for _, n := range w.nodes {
					for _, p := range c19Reads[in] {
						a, b := readInst(n.uuid, in, p), normName(readInst(n.uuid, tgt, p), tgt, in)
						nontrivial := len(n.parents) > 0
						c.Eval(fmt.Sprintf("w%d full %s v%d %s %s", wi, in, n.v, p, a), nontrivial)
						if a != b {
							c.Report("O", "C19 full-copy-read-differs "+in+"/"+strings.SplitN(p, "/", 2)[0], "a read of the copy differs from the same read of the source",
								fmt.Sprintf("GET node/v%d(%s)/%s/%s\nsource: %s\ncopy:   %s\nhistory:\n%s\n", n.v, n.uuid, in, p, a, b, hist()))
						}
					}
				}
				// raw level: the copy's keys are the source's keys with the instance id rewritten (model), values verbatim
				src, _, e1 := rawPairs(w.root, in)
				dst, dstID, e2 := rawPairs(w.root, tgt)
				if e1 != nil || e2 != nil {
					c.Report("H", "C19 raw-dump", fmt.Sprint(e1, e2), "")
				} else {
					var want []string
					for _, kv := range src {
						ans := c.Model.Ask(fmt.Sprintf("key.chinst %s %d", hex.EncodeToString(kv[0]), dstID))
						want = append(want, strings.TrimPrefix(ans, "ok ")+"="+hex.EncodeToString(sha8(kv[1])))
					}
					var got []string
					for _, kv := range dst {
						got = append(got, hex.EncodeToString(kv[0])+"="+hex.EncodeToString(sha8(kv[1])))
					}
					sort.Strings(want)
					sort.Strings(got)
					c.Cmp("C19-raw-copy "+in, fmt.Sprintf("raw keys of %s after CopyInstance(%s): model = source keys through changeInstance\nhistory:\n%s", tgt, in, hist()),
						strings.Join(got, ";"), strings.Join(want, ";"))
				}
				// ---- flattened copies
				for k := 0; k < 2; k++ {
					n := w.nodes[r.Intn(len(w.nodes))]
					ft := fmt.Sprintf("%sf%d", in, k)
					cfg := dvid.NewConfig()
					cfg.Set("transmit", "flatten")
					if err := datastore.CopyInstance(dvid.UUID(n.uuid), dvid.InstanceName(in), dvid.InstanceName(ft), cfg); err != nil {
						// a version whose read is a merge conflict cannot be flattened
						if strings.Contains(err.Error(), "conflict") || strings.Contains(err.Error(), "found multiple kv") {
							c.Count("flatten-conflict")
							continue
						}
						c.Report("O", "C19 flatten-fails "+in, "flattened CopyInstance fails: "+err.Error(), fmt.Sprintf("at v%d\n%s", n.v, hist()))
						continue
					}
					c.Count("copy-flatten-" + in)
					for _, p := range c19Reads[in] {
						a, b := readInst(n.uuid, in, p), normName(readInst(n.uuid, ft, p), ft, in)
						c.Eval(fmt.Sprintf("w%d flat %s v%d %s %s", wi, in, n.v, p, a), len(n.parents) > 0)
						if a != b {
							c.Report("O", "C19 flatten-read-differs "+in+"/"+strings.SplitN(p, "/", 2)[0], "a read of the flattened copy at its version differs from the source's read at that version",
								fmt.Sprintf("flattened at v%d (%s)\nGET %s/%s\nsource: %s\ncopy:   %s\nhistory:\n%s\n", n.v, n.uuid, in, p, a, b, hist()))
						}
					}
					// raw level: only keys of version v, no tombstones
					dst, _, _ := rawPairs(w.root, ft)
					for _, kv := range dst {
						ver, err := storage.VersionFromDataKey(kv[0])
						if err != nil || int(ver) != versionOf(n.uuid) || storage.Key(kv[0]).IsTombstone() {
							c.Report("O", "C19 flatten-raw-keys", "a flattened copy holds a key that is a tombstone or not stamped with the flatten version",
								fmt.Sprintf("flattened at v%d key %x\n%s", n.v, kv[0], hist()))
							break
						}
					}
				}
			}
			// ---- the source is unchanged
			for _, in := range insts {
				for _, n := range w.nodes {
					for _, p := range c19Reads[in] {
						k := fmt.Sprintf("v%d:%s/%s", n.v, in, p)
						if a := readInst(n.uuid, in, p); a != before[k] {
							c.Report("O", "C19 source-changed "+in, "a read of the source instance changed after copying it",
								fmt.Sprintf("%s\nbefore: %s\nafter:  %s\n%s", k, before[k], a, hist()))
						}
					}
				}
				ps, _, _ := rawPairs(w.root, in)
				var sb bytes.Buffer
				for _, kv := range ps {
					sb.WriteString(hex.EncodeToString(kv[0]) + "=" + hex.EncodeToString(sha8(kv[1])) + ";")
				}
				if sb.String() != rawBefore[in] {
					c.Report("O", "C19 source-raw-changed "+in, "the source instance's raw key-value pairs changed after copying it", hist())
				}
			}
		}()
	}
}
