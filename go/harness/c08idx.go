package main

import (
	"fmt"
	"sort"
	"strings"

	"github.com/janelia-flyem/dvid/datatype/common/labels"
	"github.com/janelia-flyem/dvid/datatype/common/proto"
	"github.com/janelia-flyem/dvid/dvid"
)

// flat index: (block index zyx, supervoxel) -> count
type flatIdx map[[2]uint64]int64

func genFlat(r *Rng, svPool []uint64, blkPool []uint64, n int, signed bool) flatIdx {
	f := flatIdx{}
	for i := 0; i < n; i++ {
		k := [2]uint64{blkPool[r.Intn(len(blkPool))], svPool[r.Intn(len(svPool))]}
		c := int64(1 + r.Intn(2000))
		if r.Chance(0.1) {
			c = 1
		}
		if signed && r.Chance(0.45) {
			c = -c
		}
		f[k] = c
	}
	return f
}

func (f flatIdx) text() string {
	if len(f) == 0 {
		return "-"
	}
	var ks [][2]uint64
	for k, c := range f {
		if c != 0 {
			ks = append(ks, k)
		}
	}
	if len(ks) == 0 {
		return "-"
	}
	sort.Slice(ks, func(i, j int) bool {
		if ks[i][0] != ks[j][0] {
			return ks[i][0] < ks[j][0]
		}
		return ks[i][1] < ks[j][1]
	})
	var sb []string
	for _, k := range ks {
		sb = append(sb, fmt.Sprintf("%d:%d:%d", k[0], k[1], f[k]))
	}
	return strings.Join(sb, ";")
}

func (f flatIdx) toIndex(label uint64) *labels.Index {
	idx := new(labels.Index)
	idx.Label = label
	idx.Blocks = map[uint64]*proto.SVCount{}
	for k, c := range f {
		if c <= 0 {
			continue
		}
		svc := idx.Blocks[k[0]]
		if svc == nil {
			svc = &proto.SVCount{Counts: map[uint64]uint32{}}
			idx.Blocks[k[0]] = svc
		}
		svc.Counts[k[1]] = uint32(c)
	}
	return idx
}

func fromIndex(idx *labels.Index) flatIdx {
	f := flatIdx{}
	if idx == nil {
		return f
	}
	for b, svc := range idx.Blocks {
		if svc == nil {
			continue
		}
		for sv, c := range svc.Counts {
			f[[2]uint64{b, sv}] = int64(c)
		}
	}
	return f
}

func (f flatIdx) toChanges() labels.SupervoxelChanges {
	sc := labels.SupervoxelChanges{}
	for k, c := range f {
		m := sc[k[1]]
		if m == nil {
			m = map[dvid.IZYXString]int32{}
			sc[k[1]] = m
		}
		m[labels.BlockIndexToIZYXString(k[0])] = int32(c)
	}
	return sc
}

// c08Index: the exported label-index operations of the real package against the Lean model
func (c *Ctx) c08Index(n int) {
	r := c.Rng.Fork()
	for i := 0; i < n; i++ {
		nsv := 2 + r.Intn(6)
		svPool := make([]uint64, nsv)
		for j := range svPool {
			svPool[j] = uint64(1 + r.Intn(40))
			if r.Chance(0.1) {
				svPool[j] = ^uint64(0) - uint64(r.Intn(3))
			}
		}
		blkPool := make([]uint64, 1+r.Intn(4))
		for j := range blkPool {
			blkPool[j] = labels.EncodeBlockIndex(int32(r.Intn(7)-3), int32(r.Intn(7)-3), int32(r.Intn(7)-3))
		}
		a := genFlat(r, svPool, blkPool, r.Intn(8), false)
		label := svPool[0]
		switch r.Intn(5) {
		case 0: // Add
			b := genFlat(r, append(append([]uint64{}, svPool...), 77, 78), blkPool, r.Intn(6), false)
			op := fmt.Sprintf("idx.add %s %s", a.text(), b.text())
			ia, ib := a.toIndex(label), b.toIndex(99)
			impl := "err"
			if err := ia.Add(ib, dvid.MutInfo{}); err == nil {
				impl = "ok " + fromIndex(ia).text()
			}
			c.Count("index op add -> " + impl[:2])
			c.Eval(op, len(a) > 0 && len(b) > 0)
			c.AskCmp("C08-index-add", op, impl)
		case 1: // Cleave
			var svs []uint64
			for _, sv := range svPool {
				if r.Chance(0.4) {
					svs = append(svs, sv)
				}
			}
			if r.Chance(0.2) {
				svs = append(svs, 12345)
			}
			var ss []string
			for _, sv := range svs {
				ss = append(ss, fmt.Sprint(sv))
			}
			st := "-"
			if len(ss) > 0 {
				st = strings.Join(ss, ",")
			}
			op := fmt.Sprintf("idx.cleave %s %s", a.text(), st)
			ia := a.toIndex(label)
			csz, rsz, cidx := ia.Cleave(500, svs, dvid.MutInfo{})
			impl := fmt.Sprintf("ok %s %s %d %d", fromIndex(ia).text(), fromIndex(cidx).text(), csz, rsz)
			c.Count("index op cleave")
			c.Eval(op, len(a) > 0 && len(svs) > 0)
			c.AskCmp("C08-index-cleave", op, impl)
		case 2, 3: // ModifyBlocks / ApplyChanges
			ch := genFlat(r, append(append([]uint64{}, svPool...), 77), blkPool, 1+r.Intn(6), true)
			if r.Chance(0.5) { // mostly-valid: subtract no more than present
				for k, d := range ch {
					if d < 0 {
						if a[k] == 0 {
							ch[k] = -d
						} else if -d > a[k] {
							ch[k] = -a[k]
						}
					}
				}
			}
			ia := a.toIndex(label)
			var op, impl string
			if r.Bool() {
				op = fmt.Sprintf("idx.modify %s %d %s", a.text(), label, ch.text())
				impl = "err"
				if err := ia.ModifyBlocks(label, ch.toChanges()); err == nil {
					impl = "ok " + fromIndex(ia).text()
				}
				c.Count("index op modify -> " + impl[:2])
				c.AskCmp("C08-index-modify", op, impl)
			} else {
				op = fmt.Sprintf("idx.apply %s %s", a.text(), ch.text())
				impl = "err"
				if err := ia.ApplyChanges(ch.toChanges()); err == nil {
					impl = "ok " + fromIndex(ia).text()
				}
				c.Count("index op apply -> " + impl[:2])
				c.AskCmp("C08-index-apply", op, impl)
			}
			c.Eval(op, len(a) > 0)
		default: // NumVoxels, GetSupervoxels, GetSupervoxelCount
			ia := a.toIndex(label)
			var svs []uint64
			for sv := range ia.GetSupervoxels() {
				svs = append(svs, sv)
			}
			sort.Slice(svs, func(i, j int) bool { return svs[i] < svs[j] })
			var s1, s2 []string
			for _, sv := range svs {
				s1 = append(s1, fmt.Sprint(sv))
				s2 = append(s2, fmt.Sprint(ia.GetSupervoxelCount(sv)))
			}
			j := func(x []string) string {
				if len(x) == 0 {
					return "-"
				}
				return strings.Join(x, ",")
			}
			op := "idx.stats " + a.text()
			c.Count("index op stats")
			c.Eval(op, len(a) > 1)
			c.AskCmp("C08-index-stats", op, fmt.Sprintf("ok %d %s %s", ia.NumVoxels(), j(s1), j(s2)))
		}
	}
}
