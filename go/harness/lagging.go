package main

import (
	"fmt"
	"strings"
	"time"

	"github.com/janelia-flyem/dvid/datastore"
	"github.com/janelia-flyem/dvid/dvid"
)

// laggingCounters: the stored id counters are made to lag behind the counters in memory by a forced
// interleaving of two acknowledged requests — a new-version request is held between building the counters value
// and storing it while a new repo and a new data instance are created (and written to), then released, so its
// older value is stored last.  The datastore is then closed and reopened and a further repo and data instance
// are created: every repo id and instance id must still be issued once (C12), and the new instance must be
// empty and must not share storage with the older one (C06).
func laggingCounters(c *Ctx, prop string) {
	OpenServer()
	defer CloseServer()
	root := NewRepo()
	NewInstance(root, "keyvalue", "kv0", nil)
	Commit(root)
	held := make(chan struct{})
	release := make(chan struct{})
	first := true
	dvid.VerifYieldFunc = func(site string) {
		if site != "datastore.putNewIDs" {
			return
		}
		if !first {
			return
		}
		first = false
		close(held)
		select {
		case <-release:
		case <-time.After(5 * time.Second):
		}
	}
	defer func() { dvid.VerifYieldFunc = nil }()
	done := make(chan Resp, 1)
	go func() {
		_, r := NewVersion(root)
		done <- r
	}()
	select {
	case <-held:
	case <-time.After(3 * time.Second):
		c.Count("lagging-counters: not reached")
		close(release)
		<-done
		return
	}
	hist := []string{"repo A with committed root; POST node/<root>/newversion is held between building the id-counters value and storing it"}
	rb := Post("repos", []byte(`{"alias":"b","description":"second"}`))
	b := jsonField(rb.Body, "root")
	ri := NewInstance(b, "keyvalue", "first", nil)
	Post("node/"+b+"/first/key/k", []byte("value of first"))
	hist = append(hist, fmt.Sprintf("meanwhile: POST repos -> %d (repo B), new keyvalue instance 'first' in B -> %d, POST first/key/k", rb.Code, ri.Code))
	close(release)
	ra := <-done
	dvid.VerifYieldFunc = nil
	hist = append(hist, fmt.Sprintf("the held request is released -> %d (its counters value is stored last)", ra.Code))
	if !rb.OK() || !ri.OK() || !ra.OK() {
		c.Count("lagging-counters: a request failed")
		return
	}
	datastore.CloseReopenTest()
	hist = append(hist, "datastore closed and reopened")
	rc := Post("repos", []byte(`{"alias":"c","description":"third"}`))
	cc := jsonField(rc.Body, "root")
	rn := NewInstance(cc, "keyvalue", "second", nil)
	hist = append(hist, fmt.Sprintf("POST repos -> %d (repo C), new keyvalue instance 'second' in C -> %d", rc.Code, rn.Code))
	c.Eval("lagging counters "+prop, true)
	c.Count("lagging-counters episode")
	if !rc.OK() || !rn.OK() {
		c.Report("O", prop+" lagging-counters create-fails", "a repo or data instance cannot be created after a restart that followed concurrent allocations", strings.Join(hist, "\n")+"\n"+rc.String()+"\n"+rn.String())
		return
	}
	if prop == "C12" {
		ids := map[int][]string{}
		for _, ln := range strings.Split(datastore.VerifManagerDump(), "\n") {
			var u string
			var id int
			if n, _ := fmt.Sscanf(strings.TrimSpace(ln), "repo uuid=%q id=%d", &u, &id); n == 2 {
				ids[id] = append(ids[id], u)
			}
		}
		for id, us := range ids {
			if len(us) > 1 {
				c.Report("O", "C12 repo-id-issued-twice concurrent", "a repo id was issued twice (concurrent allocations, then a restart)", fmt.Sprintf("repo id %d is held by repos %v\n%s", id, us, strings.Join(hist, "\n")))
			}
		}
		d1, e1 := datastore.GetDataByUUIDName(dvid.UUID(b), "first")
		d2, e2 := datastore.GetDataByUUIDName(dvid.UUID(cc), "second")
		if e1 == nil && e2 == nil && d1.InstanceID() == d2.InstanceID() {
			c.Report("O", "C12 instance-id-issued-twice concurrent", "a data-instance id was issued twice (concurrent allocations, then a restart)", fmt.Sprintf("instances 'first' and 'second' both have id %d\n%s", d1.InstanceID(), strings.Join(hist, "\n")))
		}
		// every repo is still there after another reopen
		datastore.CloseReopenTest()
		for _, u := range []string{root, b, cc} {
			if r := Get("repo/" + u + "/info"); !r.OK() {
				c.Report("O", "C12 repo-lost concurrent", "a repo is gone after a restart that followed concurrent allocations", fmt.Sprintf("GET repo/%s/info -> %s\n%s\ndatastore closed and reopened again", u, r, strings.Join(hist, "\n")))
				return
			}
		}
		return
	}
	// C06: the new instance is empty, and writing to / deleting it leaves the older instance alone
	if r := Get("node/" + cc + "/second/keys"); strings.TrimSpace(string(r.Body)) != "[]" {
		c.Report("O", "C06 new-instance-not-empty concurrent", "a newly created data instance is not empty", fmt.Sprintf("GET second/keys -> %s\n%s", r, strings.Join(hist, "\n")))
		return
	}
	if pairs, _, err := rawPairs(cc, "second"); err == nil && len(pairs) > 0 {
		c.Report("O", "C06 new-instance-not-empty concurrent", "a newly created data instance already holds stored key-value pairs", fmt.Sprintf("the store holds %d key-value pairs under the instance id of the new instance 'second'\n%s", len(pairs), strings.Join(hist, "\n")))
		return
	}
	Post("node/"+cc+"/second/key/k", []byte("value of second"))
	if r := Get("node/" + b + "/first/key/k"); string(r.Body) != "value of first" {
		c.Report("O", "C06 instance-isolation concurrent", "a write to one data instance changed what another returns", fmt.Sprintf("POST second/key/k; GET first/key/k -> %s\n%s", r, strings.Join(hist, "\n")))
		return
	}
	Delete("repo/" + cc + "/second?imsure=true")
	time.Sleep(500 * time.Millisecond)
	if r := Get("node/" + b + "/first/key/k"); string(r.Body) != "value of first" {
		c.Report("O", "C06 instance-isolation concurrent", "deleting one data instance changed what another returns", fmt.Sprintf("DELETE instance second; GET first/key/k -> %s\n%s", r, strings.Join(hist, "\n")))
	}
}
