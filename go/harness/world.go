package main

import (
	"bytes"
	"crypto/sha256"
	"encoding/binary"
	"encoding/json"
	"fmt"
	"regexp"
	"sort"
	"strconv"
	"strings"
)

var reqIDre = regexp.MustCompile(`request [A-Za-z0-9/_-]+-\d+`)

// A "world": one repo with a keyvalue, a labelmap (32^3 blocks, 64^3 volume), an annotation instance
// synced to the labelmap, and a neuronjson instance, driven through any server (in-process or child
// process), with naive Go oracles of what was written.  Shared by C02, C03, C08, C13, C16, C19.

type Srv interface {
	HTTP(method, path string, body []byte) (Resp, bool)
}

type inproc struct{}

func (inproc) HTTP(method, path string, body []byte) (Resp, bool) {
	return Do(method, api(path), body), true
}

const lmN = 64 // volume edge
const lmB = 32 // block edge

type lmVer struct {
	vox [][]uint64        // [z*lmN+y][x] supervoxel ids
	m   map[uint64]uint64 // supervoxel -> body (absent = identity)
}

func (v *lmVer) clone() *lmVer {
	n := &lmVer{m: map[uint64]uint64{}}
	n.vox = make([][]uint64, len(v.vox))
	for i := range v.vox {
		n.vox[i] = append([]uint64{}, v.vox[i]...)
	}
	for k, x := range v.m {
		n.m[k] = x
	}
	return n
}
func (v *lmVer) body(sv uint64) uint64 {
	if sv == 0 {
		return 0
	}
	if b, ok := v.m[sv]; ok {
		return b
	}
	return sv
}

type annElem struct {
	Pos  [3]int32          `json:"Pos"`
	Kind string            `json:"Kind"`
	Tags []string          `json:"Tags"`
	Prop map[string]string `json:"Prop"`
	Rels []annRel          `json:"Rels"`
}
type annRel struct {
	Rel string   `json:"Rel"`
	To  [3]int32 `json:"To"`
}

type wnode struct {
	uuid    string
	v       int
	parents []int
	locked  bool
	kv      map[string]string   // explicit writes at this version ("" = deleted)
	lm      *lmVer
	ann     map[[3]int32]annElem
	nj      map[string]map[string]interface{}
}

type World struct {
	s      Srv
	c      *Ctx
	r      *Rng
	root   string
	nodes  []*wnode
	hist   []string
	nextSV uint64
	hasLM, hasAnn, hasNJ bool
	branchN int
}

func (w *World) log(f string, a ...interface{}) { w.hist = append(w.hist, fmt.Sprintf(f, a...)) }

func (w *World) must(method, path string, body []byte) Resp {
	r, ok := w.s.HTTP(method, path, body)
	if !ok {
		w.c.Report("H", "world child-died", "server died during "+method+" "+path, strings.Join(w.hist, "\n"))
		return r
	}
	if !r.OK() {
		w.c.Report("H", "world request-failed "+method+" "+strings.SplitN(path, "/", 4)[0], r.String(), method+" "+path+"\n"+strings.Join(w.hist, "\n"))
	}
	return r
}

func NewWorld(c *Ctx, s Srv, r *Rng, withLM, withAnn, withNJ bool) *World {
	w := &World{s: s, c: c, r: r, nextSV: 10}
	resp := w.must("POST", "repos", []byte(`{"alias":"w","description":"world"}`))
	w.root = jsonField(resp.Body, "root")
	w.must("POST", "repo/"+w.root+"/instance", []byte(`{"typename":"keyvalue","dataname":"kv"}`))
	n := &wnode{uuid: w.root, v: 1, kv: map[string]string{}, ann: map[[3]int32]annElem{}, nj: map[string]map[string]interface{}{}}
	if withLM {
		w.must("POST", "repo/"+w.root+"/instance", []byte(`{"typename":"labelmap","dataname":"lm","BlockSize":"32,32,32","MaxDownresLevel":"1"}`))
		w.hasLM = true
		n.lm = &lmVer{m: map[uint64]uint64{}}
		n.lm.vox = make([][]uint64, lmN*lmN)
		for i := range n.lm.vox {
			n.lm.vox[i] = make([]uint64, lmN)
		}
	}
	if withAnn {
		w.must("POST", "repo/"+w.root+"/instance", []byte(`{"typename":"annotation","dataname":"ann"}`))
		if withLM {
			w.must("POST", "node/"+w.root+"/ann/sync", []byte(`{"sync":"lm"}`))
		}
		w.hasAnn = true
	}
	if withNJ {
		w.must("POST", "repo/"+w.root+"/instance", []byte(`{"typename":"neuronjson","dataname":"nj"}`))
		w.hasNJ = true
	}
	w.nodes = []*wnode{n}
	return w
}

func (w *World) open() []*wnode {
	var o []*wnode
	for _, n := range w.nodes {
		if !n.locked {
			o = append(o, n)
		}
	}
	return o
}

func (w *World) byV(v int) *wnode {
	for _, n := range w.nodes {
		if n.v == v {
			return n
		}
	}
	return nil
}

func (w *World) commit(n *wnode) {
	if n.locked {
		return
	}
	w.settle()
	w.must("POST", "node/"+n.uuid+"/commit", []byte(`{"note":"c"}`))
	n.locked = true
	w.log("commit v%d", n.v)
}

func (w *World) child(p *wnode, branch bool) *wnode {
	w.commit(p)
	var resp Resp
	if branch {
		w.branchN++
		resp = w.must("POST", "node/"+p.uuid+"/branch", []byte(fmt.Sprintf(`{"branch":"br%d","note":"b"}`, w.branchN)))
	} else {
		r, _ := w.s.HTTP("POST", "node/"+p.uuid+"/newversion", []byte(`{"note":"n"}`))
		if !r.OK() { // master child exists already: branch instead
			w.branchN++
			r = w.must("POST", "node/"+p.uuid+"/branch", []byte(fmt.Sprintf(`{"branch":"br%d","note":"b"}`, w.branchN)))
		}
		resp = r
	}
	uuid := jsonField(resp.Body, "child")
	if uuid == "" {
		return nil
	}
	maxV := 0
	for _, n := range w.nodes {
		if n.v > maxV {
			maxV = n.v
		}
	}
	c := &wnode{uuid: uuid, v: maxV + 1, parents: []int{p.v}, kv: map[string]string{}, ann: map[[3]int32]annElem{}, nj: map[string]map[string]interface{}{}}
	if p.lm != nil {
		c.lm = p.lm.clone()
	}
	for k, e := range p.ann {
		e.Rels = append([]annRel{}, e.Rels...) // versions must not share the slices the oracle edits in place
		e.Tags = append([]string{}, e.Tags...)
		c.ann[k] = e
	}
	for k, e := range p.nj {
		c.nj[k] = e
	}
	w.nodes = append(w.nodes, c)
	w.log("new version v%d off v%d", c.v, p.v)
	return c
}

func (w *World) settle() {
	type settler interface{ Ask(string) (string, bool) }
	if ch, ok := w.s.(*Child); ok {
		for _, n := range []string{"lm", "ann"} {
			if (n == "lm" && w.hasLM) || (n == "ann" && w.hasAnn) {
				ch.Ask("SETTLE " + w.root + " " + n)
			}
		}
		return
	}
	settleInproc(w)
}

// ---- key-value ----

var worldKeys = []string{"a", "ab", "b", "k1", "k2"}

func (w *World) kvOp(n *wnode) {
	k := worldKeys[w.r.Intn(len(worldKeys))]
	if w.r.Chance(0.7) {
		val := fmt.Sprintf("%s@v%d#%d", k, n.v, w.r.Intn(1000))
		w.must("POST", "node/"+n.uuid+"/kv/key/"+k, []byte(val))
		n.kv[k] = val
		w.log("kv put %s=%s at v%d", k, val, n.v)
	} else {
		w.must("DELETE", "node/"+n.uuid+"/kv/key/"+k, nil)
		n.kv[k] = ""
		w.log("kv delete %s at v%d", k, n.v)
	}
}

// expected kv value at a node by first-parent-free ancestry (worlds only use trees: no merges)
func (w *World) kvExpect(n *wnode, k string) (string, bool) {
	for cur := n; cur != nil; {
		if v, ok := cur.kv[k]; ok {
			return v, v != ""
		}
		if len(cur.parents) == 0 {
			break
		}
		cur = w.byV(cur.parents[0])
	}
	return "", false
}

// ---- labelmap ----

func u64le(vals []uint64) []byte {
	b := make([]byte, 8*len(vals))
	for i, v := range vals {
		binary.LittleEndian.PutUint64(b[8*i:], v)
	}
	return b
}

// lmIngest writes one 32^3 block of supervoxels made of a few boxes
func (w *World) lmIngest(n *wnode, mutate bool) {
	bx, by, bz := w.r.Intn(lmN/lmB), w.r.Intn(lmN/lmB), w.r.Intn(lmN/lmB)
	blk := make([]uint64, lmB*lmB*lmB)
	nsv := 1 + w.r.Intn(4)
	svs := make([]uint64, nsv)
	// the mutate flag must say whether the block already holds labels (API contract of POST raw)
	exists := false
	for z := 0; z < lmB && !exists; z++ {
		for y := 0; y < lmB && !exists; y++ {
			for _, sv := range n.lm.vox[(bz*lmB+z)*lmN+by*lmB+y][bx*lmB : bx*lmB+lmB] {
				if sv != 0 {
					exists = true
					break
				}
			}
		}
	}
	mutate = exists
	var live []uint64 // supervoxels present at this version: only those may be extended into another block
	{
		seen := map[uint64]bool{}
		for _, row := range n.lm.vox {
			for _, sv := range row {
				if sv != 0 && !seen[sv] {
					seen[sv] = true
					live = append(live, sv)
				}
			}
		}
		sort.Slice(live, func(i, j int) bool { return live[i] < live[j] })
	}
	for i := range svs {
		if w.r.Chance(0.3) && len(live) > 0 { // reuse a live supervoxel id: a supervoxel spanning several blocks
			svs[i] = live[w.r.Intn(len(live))]
		} else {
			svs[i] = w.nextSV
			w.nextSV++
		}
	}
	cut := [3]int{8 + w.r.Intn(16), 8 + w.r.Intn(16), 8 + w.r.Intn(16)}
	for z := 0; z < lmB; z++ {
		for y := 0; y < lmB; y++ {
			for x := 0; x < lmB; x++ {
				idx := 0
				if x >= cut[0] {
					idx |= 1
				}
				if y >= cut[1] {
					idx |= 2
				}
				if z >= cut[2] && nsv > 2 {
					idx ^= 3
				}
				var sv uint64
				if idx%(nsv+1) < nsv {
					sv = svs[idx%(nsv+1)]
				} // else background 0
				blk[(z*lmB+y)*lmB+x] = sv
			}
		}
	}
	path := fmt.Sprintf("node/%s/lm/raw/0_1_2/%d_%d_%d/%d_%d_%d", n.uuid, lmB, lmB, lmB, bx*lmB, by*lmB, bz*lmB)
	if mutate {
		path += "?mutate=true"
	}
	w.must("POST", path, u64le(blk))
	for z := 0; z < lmB; z++ {
		for y := 0; y < lmB; y++ {
			copy(n.lm.vox[(bz*lmB+z)*lmN+by*lmB+y][bx*lmB:bx*lmB+lmB], blk[(z*lmB+y)*lmB:(z*lmB+y)*lmB+lmB])
		}
	}
	w.log("lm ingest block (%d,%d,%d) svs=%v mutate=%v at v%d", bx, by, bz, svs, mutate, n.v)
	w.settle()
}

func (w *World) lmBodies(n *wnode) map[uint64][]uint64 {
	out := map[uint64][]uint64{}
	seen := map[uint64]bool{}
	for _, row := range n.lm.vox {
		for _, sv := range row {
			if sv != 0 && !seen[sv] {
				seen[sv] = true
				b := n.lm.body(sv)
				out[b] = append(out[b], sv)
			}
		}
	}
	for b := range out {
		sort.Slice(out[b], func(i, j int) bool { return out[b][i] < out[b][j] })
	}
	return out
}

func (w *World) lmMerge(n *wnode) bool {
	bodies := w.lmBodies(n)
	if len(bodies) < 2 {
		return false
	}
	var ids []uint64
	for b := range bodies {
		ids = append(ids, b)
	}
	sort.Slice(ids, func(i, j int) bool { return ids[i] < ids[j] })
	k := 2
	if len(ids) > 2 && w.r.Bool() {
		k = 3
	}
	perm := w.r.perm(len(ids))
	var sel []uint64
	for _, i := range perm[:k] {
		sel = append(sel, ids[i])
	}
	body, _ := json.Marshal(sel)
	r := w.must("POST", "node/"+n.uuid+"/lm/merge", body)
	if !r.OK() {
		return false
	}
	for _, from := range sel[1:] {
		for _, sv := range bodies[from] {
			n.lm.m[sv] = sel[0]
		}
	}
	w.log("lm merge %v at v%d", sel, n.v)
	w.settle()
	return true
}

func (w *World) lmCleave(n *wnode) bool {
	bodies := w.lmBodies(n)
	var cands []uint64
	for b, svs := range bodies {
		if len(svs) >= 2 {
			cands = append(cands, b)
		}
	}
	if len(cands) == 0 {
		return false
	}
	sort.Slice(cands, func(i, j int) bool { return cands[i] < cands[j] })
	b := cands[w.r.Intn(len(cands))]
	svs := bodies[b]
	k := 1 + w.r.Intn(len(svs)-1)
	perm := w.r.perm(len(svs))
	var sel []uint64
	for _, i := range perm[:k] {
		sel = append(sel, svs[i])
	}
	body, _ := json.Marshal(sel)
	r := w.must("POST", fmt.Sprintf("node/%s/lm/cleave/%d", n.uuid, b), body)
	if !r.OK() {
		return false
	}
	var out struct{ CleavedLabel uint64 }
	json.Unmarshal(r.Body, &out)
	for _, sv := range sel {
		n.lm.m[sv] = out.CleavedLabel
	}
	if out.CleavedLabel >= w.nextSV {
		w.nextSV = out.CleavedLabel + 1
	}
	w.log("lm cleave body %d svs %v -> %d at v%d", b, sel, out.CleavedLabel, n.v)
	w.settle()
	return true
}

// lmSplitSV splits off the voxels of one supervoxel that lie in a half-space
func (w *World) lmSplitSV(n *wnode) bool {
	bodies := w.lmBodies(n)
	var svs []uint64
	for _, l := range bodies {
		svs = append(svs, l...)
	}
	if len(svs) == 0 {
		return false
	}
	sort.Slice(svs, func(i, j int) bool { return svs[i] < svs[j] })
	sv := svs[w.r.Intn(len(svs))]
	var mapped []uint64 // supervoxels that currently belong to another body (merged / cleaved): the interesting ones
	for _, x := range svs {
		if n.lm.body(x) != x {
			mapped = append(mapped, x)
		}
	}
	if len(mapped) > 0 && w.r.Chance(0.7) {
		sv = mapped[w.r.Intn(len(mapped))]
	}
	axis := w.r.Intn(3)
	var coords []int
	for z := 0; z < lmN; z++ {
		for y := 0; y < lmN; y++ {
			for x := 0; x < lmN; x++ {
				if n.lm.vox[z*lmN+y][x] == sv {
					coords = append(coords, []int{x, y, z}[axis])
				}
			}
		}
	}
	sort.Ints(coords)
	cutv := coords[len(coords)/2]
	type span struct{ x, y, z, n int32 }
	var spans []span
	total, split := 0, 0
	for z := 0; z < lmN; z++ {
		for y := 0; y < lmN; y++ {
			row := n.lm.vox[z*lmN+y]
			for x := 0; x < lmN; {
				if row[x] == sv {
					total++
				}
				in := row[x] == sv && []int{x, y, z}[axis] < cutv
				if !in {
					x++
					continue
				}
				x0 := x
				for x < lmN && row[x] == sv && []int{x, y, z}[axis] < cutv {
					if x > x0 {
						total++
					}
					x++
				}
				spans = append(spans, span{int32(x0), int32(y), int32(z), int32(x - x0)})
				split += x - x0
			}
		}
	}
	if split == 0 || split == total {
		return false
	}
	var buf bytes.Buffer
	buf.Write([]byte{0, 3, 0, 0})
	binary.Write(&buf, binary.LittleEndian, uint32(0))
	binary.Write(&buf, binary.LittleEndian, uint32(len(spans)))
	for _, s := range spans {
		binary.Write(&buf, binary.LittleEndian, s)
	}
	r := w.must("POST", fmt.Sprintf("node/%s/lm/split-supervoxel/%d", n.uuid, sv), buf.Bytes())
	if !r.OK() {
		return false
	}
	var out struct{ SplitSupervoxel, RemainSupervoxel uint64 }
	json.Unmarshal(r.Body, &out)
	body := n.lm.body(sv)
	for _, s := range spans {
		for k := int32(0); k < s.n; k++ {
			n.lm.vox[int(s.z)*lmN+int(s.y)][int(s.x+k)] = out.SplitSupervoxel
		}
	}
	for i := range n.lm.vox {
		for x := range n.lm.vox[i] {
			if n.lm.vox[i][x] == sv {
				n.lm.vox[i][x] = out.RemainSupervoxel
			}
		}
	}
	n.lm.m[out.SplitSupervoxel] = body
	n.lm.m[out.RemainSupervoxel] = body
	for _, l := range []uint64{out.SplitSupervoxel, out.RemainSupervoxel} {
		if l >= w.nextSV {
			w.nextSV = l + 1
		}
	}
	w.log("lm split-supervoxel %d (body %d) -> split %d (%d voxels) remain %d at v%d", sv, body, out.SplitSupervoxel, split, out.RemainSupervoxel, n.v)
	w.settle()
	return true
}

func (r *Rng) perm(n int) []int {
	p := make([]int, n)
	for i := range p {
		p[i] = i
	}
	for i := n - 1; i > 0; i-- {
		j := r.Intn(i + 1)
		p[i], p[j] = p[j], p[i]
	}
	return p
}

// ---- annotation ----

var annTags = []string{"t1", "t2", "t3"}

func annReferenced(set map[[3]int32]annElem, p [3]int32) bool {
	for _, e := range set {
		for _, rl := range e.Rels {
			if rl.To == p {
				return true
			}
		}
	}
	return false
}

func (w *World) annPost(n *wnode) {
	k := 1 + w.r.Intn(3)
	var els []annElem
	for i := 0; i < k; i++ {
		pos := [3]int32{int32(w.r.Intn(lmN)), int32(w.r.Intn(lmN)), int32(w.r.Intn(lmN))}
		if w.r.Chance(0.25) && len(n.ann) > 0 { // overwrite an existing position (one not in any relationship:
			// overwriting a partner leaves one-sided references, which no property speaks about)
			var cand [][3]int32
			for p, e := range n.ann {
				if len(e.Rels) == 0 && !annReferenced(n.ann, p) {
					cand = append(cand, p)
				}
			}
			sort.Slice(cand, func(i, j int) bool { return fmt.Sprint(cand[i]) < fmt.Sprint(cand[j]) })
			if len(cand) > 0 {
				pos = cand[w.r.Intn(len(cand))]
			}
		}
		dup := false
		for _, x := range els {
			if x.Pos == pos {
				dup = true
			}
		}
		if dup {
			continue
		}
		e := annElem{Pos: pos, Kind: []string{"PostSyn", "PreSyn", "Note"}[w.r.Intn(3)], Tags: []string{}, Prop: map[string]string{"n": fmt.Sprint(w.r.Intn(100))}, Rels: []annRel{}}
		for _, t := range annTags {
			if w.r.Chance(0.4) {
				e.Tags = append(e.Tags, t)
			}
		}
		els = append(els, e)
	}
	if len(els) == 0 {
		return
	}
	if len(els) >= 2 && w.r.Chance(0.5) { // mutual relationship
		els[0].Rels = []annRel{{"PostSynTo", els[1].Pos}}
		els[1].Rels = []annRel{{"PreSynTo", els[0].Pos}}
		if els[0].Prop["n"] < "4" { // two relationships between the same pair (no extra random draw: worlds of earlier seeds keep their shape)
			els[0].Rels = append(els[0].Rels, annRel{"GroupedWith", els[1].Pos})
			els[1].Rels = append(els[1].Rels, annRel{"GroupedWith", els[0].Pos})
			if len(els) >= 3 {
				els[0].Rels = append(els[0].Rels, annRel{"GroupedWith", els[2].Pos})
				els[2].Rels = []annRel{{"GroupedWith", els[0].Pos}}
			}
		}
	}
	body, _ := json.Marshal(els)
	w.must("POST", "node/"+n.uuid+"/ann/elements", body)
	for _, e := range els {
		n.ann[e.Pos] = e
	}
	w.log("ann post %s at v%d", string(body), n.v)
	w.settle()
}

func (w *World) annDelete(n *wnode) bool {
	if len(n.ann) == 0 {
		return false
	}
	var ps [][3]int32
	for p := range n.ann {
		ps = append(ps, p)
	}
	sort.Slice(ps, func(i, j int) bool { return fmt.Sprint(ps[i]) < fmt.Sprint(ps[j]) })
	p := ps[w.r.Intn(len(ps))]
	w.must("DELETE", fmt.Sprintf("node/%s/ann/element/%d_%d_%d", n.uuid, p[0], p[1], p[2]), nil)
	delete(n.ann, p)
	for q, e := range n.ann {
		var keep []annRel
		for _, rl := range e.Rels {
			if rl.To != p {
				keep = append(keep, rl)
			}
		}
		if keep == nil {
			keep = []annRel{}
		}
		e.Rels = keep
		n.ann[q] = e
	}
	w.log("ann delete %v at v%d", p, n.v)
	w.settle()
	return true
}

func (w *World) annMove(n *wnode) bool {
	if len(n.ann) == 0 {
		return false
	}
	var ps [][3]int32
	for p := range n.ann {
		ps = append(ps, p)
	}
	sort.Slice(ps, func(i, j int) bool { return fmt.Sprint(ps[i]) < fmt.Sprint(ps[j]) })
	p := ps[w.r.Intn(len(ps))]
	to := [3]int32{int32(w.r.Intn(lmN)), int32(w.r.Intn(lmN)), int32(w.r.Intn(lmN))}
	if w.r.Chance(0.4) { // stay inside the same block
		to = [3]int32{p[0]/lmB*lmB + int32(w.r.Intn(lmB)), p[1]/lmB*lmB + int32(w.r.Intn(lmB)), p[2]/lmB*lmB + int32(w.r.Intn(lmB))}
	}
	if _, occupied := n.ann[to]; occupied || to == p {
		return false
	}
	r := w.must("POST", fmt.Sprintf("node/%s/ann/move/%d_%d_%d/%d_%d_%d", n.uuid, p[0], p[1], p[2], to[0], to[1], to[2]), nil)
	if !r.OK() {
		return false
	}
	e := n.ann[p]
	delete(n.ann, p)
	e.Pos = to
	n.ann[to] = e
	for q, x := range n.ann {
		x.Rels = append([]annRel{}, x.Rels...)
		for i := range x.Rels {
			if x.Rels[i].To == p {
				x.Rels[i].To = to
			}
		}
		n.ann[q] = x
	}
	w.log("ann move %v -> %v at v%d", p, to, n.v)
	w.settle()
	return true
}

// ---- neuronjson ----

func (w *World) njOp(n *wnode) {
	id := fmt.Sprint(1000 + w.r.Intn(5))
	if w.r.Chance(0.2) {
		w.njSchema(n, []string{"json_schema", "schema", "schema_batch"}[w.r.Intn(3)], w.r.Chance(0.75))
		return
	}
	switch k := w.r.Intn(10); {
	case k < 7:
		idn, _ := strconv.Atoi(id)
		obj := map[string]interface{}{"bodyid": idn}
		for _, f := range []string{"name", "type", "size", "tags"} {
			if w.r.Chance(0.5) {
				switch f {
				case "size":
					obj[f] = w.r.Intn(50)
				case "tags":
					obj[f] = []interface{}{"x", fmt.Sprint(w.r.Intn(3))}
				default:
					obj[f] = fmt.Sprintf("%s%d", f, w.r.Intn(4))
				}
			}
		}
		if w.r.Chance(0.2) && len(n.nj[id]) > 0 {
			for f := range n.nj[id] {
				if f != "bodyid" && !strings.HasSuffix(f, "_user") && !strings.HasSuffix(f, "_time") {
					obj[f] = nil // null removes the field's value
					break
				}
			}
		}
		body, _ := json.Marshal(obj)
		w.must("POST", "node/"+n.uuid+"/nj/key/"+id+"?u=tester", body)
		cur := map[string]interface{}{}
		for f, v := range n.nj[id] {
			cur[f] = v
		}
		for f, v := range obj {
			if v == nil {
				delete(cur, f)
			} else {
				cur[f] = v
			}
		}
		n.nj[id] = cur
		w.log("nj post %s %s at v%d", id, string(body), n.v)
	default:
		w.s.HTTP("DELETE", "node/"+n.uuid+"/nj/key/"+id+"?u=tester", nil)
		delete(n.nj, id)
		w.log("nj delete %s at v%d", id, n.v)
	}
}

// njSchema: set or delete one kind of schema metadata of the neuronjson instance at this version (the validation
// schema stays permissive so that it never rejects the generated annotations)
func (w *World) njSchema(n *wnode, typ string, post bool) {
	if post {
		body := fmt.Sprintf(`{"type":"object","title":"%s-%d-v%d"}`, typ, w.r.Intn(1000), n.v)
		w.must("POST", "node/"+n.uuid+"/nj/"+typ+"?u=tester", []byte(body))
		w.log("nj post %s %s at v%d", typ, body, n.v)
	} else {
		w.s.HTTP("DELETE", "node/"+n.uuid+"/nj/"+typ+"?u=tester", nil)
		w.log("nj delete %s at v%d", typ, n.v)
	}
}

// ---- history generation ----

func (w *World) Step() {
	open := w.open()
	if len(open) == 0 {
		w.child(w.nodes[w.r.Intn(len(w.nodes))], false)
		return
	}
	n := open[w.r.Intn(len(open))]
	k := w.r.Intn(100)
	switch {
	case k < 8:
		w.child(n, w.r.Chance(0.3))
	case k < 12 && len(w.nodes) > 1:
		var locked []*wnode
		for _, x := range w.nodes {
			if x.locked {
				locked = append(locked, x)
			}
		}
		if len(locked) > 0 {
			w.child(locked[w.r.Intn(len(locked))], true)
		}
	case k < 30:
		w.kvOp(n)
	case k < 55 && w.hasLM:
		switch j := w.r.Intn(10); {
		case j < 4:
			w.lmIngest(n, len(w.lmBodies(n)) > 0 && w.r.Chance(0.5))
		case j < 6:
			if !w.lmMerge(n) {
				w.lmIngest(n, false)
			}
		case j < 8:
			if !w.lmCleave(n) {
				w.lmIngest(n, false)
			}
		default:
			if !w.lmSplitSV(n) {
				w.lmIngest(n, false)
			}
		}
	case k < 80 && w.hasAnn:
		switch j := w.r.Intn(10); {
		case j < 6:
			w.annPost(n)
		case j < 8:
			if !w.annDelete(n) {
				w.annPost(n)
			}
		default:
			if !w.annMove(n) {
				w.annPost(n)
			}
		}
	case w.hasNJ:
		w.njOp(n)
	default:
		w.kvOp(n)
	}
}

// ---- snapshot of every read endpoint worth looking at ----

func (w *World) Snapshot() map[string]string {
	w.settle()
	out := map[string]string{}
	get := func(path string) {
		r, ok := w.s.HTTP("GET", path, nil)
		if !ok {
			out[path] = "DEAD"
			return
		}
		r.Body = canonBody(path, r.Body)
		if r.Code >= 500 {
			r.Body = reqIDre.ReplaceAll(r.Body, []byte("request <id>"))
		}
		h := sha256.Sum256(r.Body)
		body := string(r.Body)
		if len(body) > 120 {
			body = fmt.Sprintf("%s…(%d bytes, sha %x)", body[:60], len(r.Body), h[:6])
		}
		out[path] = fmt.Sprintf("%d %s", r.Code, body)
	}
	r, _ := w.s.HTTP("GET", "repo/"+w.root+"/info", nil)
	out["repo/info"] = canonRepoInfo(r.Body)
	for _, n := range w.nodes {
		p := "node/" + n.uuid + "/"
		key := func(s string) string { return fmt.Sprintf("v%d:%s", n.v, s) }
		g := func(s string) {
			get(p + s)
			out[key(s)] = out[p+s]
			delete(out, p+s)
		}
		g("kv/keys")
		for _, k := range worldKeys {
			g("kv/key/" + k)
		}
		g("kv/keyrange/a/z")
		if w.hasLM {
			g("lm/raw/0_1_2/64_64_64/0_0_0")
			g("lm/raw/0_1_2/64_64_64/0_0_0?supervoxels=true")
			g("lm/raw/0_1_2/32_32_32/0_0_0?scale=1")
			g("lm/supervoxel-splits")
			g("lm/maxlabel")
			g("lm/nextlabel")
			g("lm/mappings")
			g("lm/listlabels")
			bodies := w.lmBodies(n)
			var ids []uint64
			for b := range bodies {
				ids = append(ids, b)
			}
			sort.Slice(ids, func(i, j int) bool { return ids[i] < ids[j] })
			for _, b := range ids {
				g(fmt.Sprintf("lm/size/%d", b))
				g(fmt.Sprintf("lm/supervoxels/%d", b))
				g(fmt.Sprintf("lm/sparsevol/%d?format=rles", b))
				g(fmt.Sprintf("lm/sparsevol-coarse/%d", b))
				g(fmt.Sprintf("lm/index/%d", b))
			}
			g("lm/label/5_5_5")
			g("lm/label/40_40_40")
		}
		if w.hasAnn {
			g("ann/elements/64_64_64/0_0_0")
			g("ann/all-elements")
			for _, t := range annTags {
				g("ann/tag/" + t)
			}
			if w.hasLM {
				var ids []uint64
				for b := range w.lmBodies(n) {
					ids = append(ids, b)
				}
				sort.Slice(ids, func(i, j int) bool { return ids[i] < ids[j] })
				for _, b := range ids {
					g(fmt.Sprintf("ann/label/%d", b))
				}
			}
		}
		if w.hasNJ {
			g("nj/keys")
			g("nj/all")
			g("nj/fields")
			g("nj/fields?counts=true")
			g("nj/json_schema")
			g("nj/schema")
			g("nj/schema_batch")
			for i := 0; i < 5; i++ {
				g(fmt.Sprintf("nj/key/%d", 1000+i))
			}
		}
	}
	return out
}

// canonBody puts responses whose element order is unspecified (they come out of Go maps) into a canonical
// order, so that only content differences are reported.
func canonBody(path string, b []byte) []byte {
	ep := path
	if i := strings.Index(ep, "?"); i >= 0 {
		ep = ep[:i]
	}
	switch {
	case strings.Contains(ep, "/lm/supervoxels/"):
		var l []uint64
		if json.Unmarshal(b, &l) == nil {
			sort.Slice(l, func(i, j int) bool { return l[i] < l[j] })
			o, _ := json.Marshal(l)
			return o
		}
	case strings.Contains(ep, "/lm/sparsevol/") || strings.Contains(ep, "/lm/sparsevol-coarse/"):
		if len(b) >= 12 && (len(b)-12)%16 == 0 {
			runs := make([]string, 0, (len(b)-12)/16)
			for i := 12; i < len(b); i += 16 {
				runs = append(runs, string(b[i:i+16]))
			}
			sort.Strings(runs)
			return []byte(string(b[:12]) + strings.Join(runs, ""))
		}
	case strings.Contains(ep, "/lm/index/"):
		return canonLabelIndex(b)
	case strings.Contains(ep, "/lm/mappings"):
		lines := strings.Split(strings.TrimSpace(string(b)), "\n")
		sort.Strings(lines)
		return []byte(strings.Join(lines, "\n"))
	case strings.Contains(ep, "/ann/") || strings.Contains(ep, "/nj/all") || strings.Contains(ep, "/nj/fields"):
		var v interface{}
		if json.Unmarshal(b, &v) == nil {
			o, _ := json.Marshal(canonJSON(v, ""))
			return o
		}
	}
	return b
}

func canonJSON(v interface{}, key string) interface{} {
	switch x := v.(type) {
	case map[string]interface{}:
		for k, c := range x {
			x[k] = canonJSON(c, k)
		}
		return x
	case []interface{}:
		for i := range x {
			x[i] = canonJSON(x[i], "")
		}
		allObj := len(x) > 0
		for _, c := range x {
			if _, ok := c.(map[string]interface{}); !ok {
				allObj = false
			}
		}
		if allObj || key == "Tags" || key == "" && isStringList(x) {
			sort.Slice(x, func(i, j int) bool {
				a, _ := json.Marshal(x[i])
				b, _ := json.Marshal(x[j])
				return string(a) < string(b)
			})
		}
		return x
	}
	return v
}

func isStringList(x []interface{}) bool {
	for _, c := range x {
		if _, ok := c.(string); !ok {
			return false
		}
	}
	return len(x) > 0
}

// canonRepoInfo: DAG, commit flags, notes, instance names and types; timestamps and counters dropped
func canonRepoInfo(b []byte) string {
	var ri struct {
		Alias, Description string
		Log                []string
		DAG                struct {
			Nodes map[string]struct {
				Branch, Note string
				Log          []string
				VersionID    int
				Locked       bool
				Parents      []int
				Children     []int
			}
		}
		DataInstances map[string]struct {
			Base struct {
				TypeName, Name string
				Syncs          []string
				Versioned      bool
			}
		}
	}
	if err := json.Unmarshal(b, &ri); err != nil {
		return "unparsable: " + string(b)
	}
	var lines []string
	lines = append(lines, fmt.Sprintf("alias=%q desc=%q log=%d", ri.Alias, ri.Description, len(ri.Log)))
	for _, n := range ri.DAG.Nodes {
		ch := append([]int{}, n.Children...)
		sort.Ints(ch)
		lines = append(lines, fmt.Sprintf("v%d locked=%v parents=%v children=%v branch=%q note=%q log=%v", n.VersionID, n.Locked, n.Parents, ch, n.Branch, n.Note, n.Log))
	}
	for name, d := range ri.DataInstances {
		lines = append(lines, fmt.Sprintf("instance %s type=%s syncs=%d", name, d.Base.TypeName, len(d.Base.Syncs)))
	}
	sort.Strings(lines)
	return strings.Join(lines, "\n")
}

func commonPrefix(a, b string) int {
	n := 0
	for n < len(a) && n < len(b) && a[n] == b[n] {
		n++
	}
	return n
}

func diffSnap(a, b map[string]string) []string {
	var out []string
	for k, v := range a {
		if b[k] != v {
			x, y := v, b[k]
			if p := commonPrefix(x, y); p > 150 { // long values: show them from just before the first difference
				x, y = "…"+x[p-100:], "…"+y[p-100:]
			}
			out = append(out, fmt.Sprintf("%s\n    before: %s\n    after:  %s", k, clipS(x), clipS(y)))
		}
	}
	for k, v := range b {
		if _, ok := a[k]; !ok {
			out = append(out, fmt.Sprintf("%s\n    before: (absent)\n    after:  %s", k, clipS(v)))
		}
	}
	sort.Strings(out)
	return out
}
