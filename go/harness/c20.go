package main

// C20 — no request can crash the server; malformed ones are rejected harmlessly.
//
// A real server process holds a generated world (keyvalue, labelmap, annotation, neuronjson, roi, image
// volume over several versions).  Hostile requests — byte-level mutants of valid payloads for every ingestion
// and mutation endpoint, and syntactically hostile URLs — are sent to a scratch version H (a child of a
// committed world version).  After each batch: the process must be alive and answering, the instances must
// report idle again, no response may carry a recovered panic, clearly malformed payload classes must be
// refused, and the full read snapshot of every world version (which no hostile request names) must be
// unchanged.  Binary parsers are additionally compared with the Lean model at package level.

import (
	"bytes"
	"compress/gzip"
	"encoding/binary"
	"encoding/json"
	"fmt"
	"io"
	"os"
	"sort"
	"strings"
	"time"

	"github.com/janelia-flyem/dvid/datatype/common/labels"
	"github.com/janelia-flyem/dvid/datatype/common/proto"
	"github.com/janelia-flyem/dvid/dvid"
	pb "google.golang.org/protobuf/proto"
)

func init() { register("C20", runC20) }

type hostileEP struct {
	name     string // endpoint label for signatures
	method   string
	path     string // relative to node/<H>/
	valid    []byte
	kind     string // "bin", "json", "blockstream", "rawvol", "rle", "proto"
	mustFail func(m mutant) bool
}

type mutant struct {
	how  string
	body []byte
}

type c20Sess struct {
	c    *Ctx
	r    *Rng
	dir  string
	ch   *Child
	w    *World
	H    string // hostile target version
	hist []string
	base map[string]string
	deaths int
	urlPanics []string
}

func (s *c20Sess) log(f string, a ...interface{}) {
	s.hist = append(s.hist, fmt.Sprintf(f, a...))
	if len(s.hist) > 60 {
		s.hist = s.hist[len(s.hist)-60:]
	}
}

func (s *c20Sess) replay(extra string) string {
	return extra + "\nlast requests:\n" + strings.Join(s.hist, "\n") + "\nworld history:\n" + strings.Join(s.w.hist, "\n") + "\n"
}

func deathSite(tail string) string {
	site := "unknown"
	for _, ln := range strings.Split(tail, "\n") {
		if strings.Contains(ln, "/repo/") {
			site = strings.TrimSpace(ln)
			if i := strings.Index(site, "/repo/"); i >= 0 {
				site = site[i+6:]
			}
			if i := strings.Index(site, " "); i >= 0 {
				site = site[:i]
			}
			if i := strings.LastIndex(site, ":"); i >= 0 {
				site = site[:i]
			}
			break
		}
	}
	return site
}

// restart brings the server back on the same directory after it died
func (s *c20Sess) restart() bool {
	s.deaths++
	if s.deaths > 12 {
		return false
	}
	ch, msg := StartChild(s.dir, nil)
	if ch == nil {
		s.c.Report("O", "C20 no-restart-after-crash", "after a hostile request killed the server it does not start again on the same store", s.replay(msg))
		return false
	}
	s.ch = ch
	s.w.s = ch
	return true
}

// send: one hostile request; classifies death / recovered panic / wedge
func (s *c20Sess) send(ep, method, path string, body []byte, how string) (Resp, bool) {
	desc := fmt.Sprintf("%s %s body=%d bytes [%s]", method, path, len(body), how)
	s.log("%s", desc)
	t0 := time.Now()
	r, ok := s.ch.HTTP(method, path, body)
	if tr := os.Getenv("VERIF_TRACE"); tr != "" && strings.Contains(path, tr) {
		fmt.Fprintf(os.Stderr, "TRACE %s %s -> ok=%v %s (%.2fs)\n", method, path, ok, r.String(), time.Since(t0).Seconds())
	}
	if d := time.Since(t0); d > 3*time.Second {
		s.c.Count(fmt.Sprintf("slow request (>3s): %s %s", method, strings.SplitN(path, "/", 3)[2]))
	}
	if !ok {
		tail := s.ch.StderrTail(16)
		if string(r.Body) == "TIMEOUT" {
			s.c.Report("O", "C20 wedged "+ep, "the server stopped answering (no response within the time limit) during a hostile request", s.replay(desc+"\nbody (hex, first 200 bytes): "+hx(trim(body, 200))))
		} else {
			s.c.Report("O", "C20 server-died "+deathSite(tail), "a request terminated the server process", s.replay(desc+"\nbody (hex, first 400 bytes): "+hx(trim(body, 400))+"\nstderr of the server process:\n"+tail))
		}
		s.restart()
		return r, false
	}
	if r.Code >= 500 && (bytes.Contains(r.Body, []byte("anic")) || r.Code == 599) {
		msg := string(r.Body)
		if how == "hostile URL" {
			// the statement requires a client error for malformed *payloads* and forbids recovered panics for
			// *conforming* requests; a hostile URL must not kill or wedge the server, which is checked above
			s.c.Count("hostile URL answered with a recovered panic (recorded, outside the statement)")
			s.urlPanics = append(s.urlPanics, method+" "+strings.SplitN(path, "/", 3)[2]+": "+panicClass(msg))
			return r, true
		}
		s.c.Report("O", "C20 panic-recovered "+ep+" "+panicClass(msg), "a request was answered with an internal error caused by a recovered panic", s.replay(desc+"\nresponse: "+trunc(msg)+"\nbody (hex, first 400 bytes): "+hx(trim(body, 400))))
	}
	return r, true
}

func trim(b []byte, n int) []byte {
	if len(b) > n {
		return b[:n]
	}
	return b
}

func panicClass(msg string) string {
	for _, k := range []string{"index out of range", "slice bounds out of range", "nil pointer", "nil map", "makeslice", "divide by zero", "invalid memory address", "out of memory"} {
		if strings.Contains(msg, k) {
			return strings.ReplaceAll(k, " ", "-")
		}
	}
	return "other"
}

// ---- mutation ----

var hostileInts = []uint32{0xFFFFFFFF, 0x7FFFFFFF, 0x80000000, 0x00FFFFFF, 0x10000, 1 << 20, 0}

func (s *c20Sess) mutateBytes(valid []byte) mutant {
	r := s.r
	b := append([]byte{}, valid...)
	switch k := r.Intn(10); {
	case k < 3 && len(b) > 0:
		n := r.Intn(len(b))
		if r.Chance(0.3) && len(b) > 16 {
			n = []int{0, 1, 4, 8, 12, 15, 16, 17, len(b) - 1}[r.Intn(9)]
		}
		return mutant{fmt.Sprintf("truncate to %d of %d", n, len(b)), b[:n]}
	case k < 5 && len(b) > 0:
		n := 1 + r.Intn(3)
		var pos []int
		for i := 0; i < n; i++ {
			p := r.Intn(len(b) * 8)
			if r.Chance(0.5) && len(b) > 64 {
				p = r.Intn(64 * 8) // headers live at the front
			}
			b[p/8] ^= 1 << uint(p%8)
			pos = append(pos, p)
		}
		return mutant{fmt.Sprintf("bit flips at %v", pos), b}
	case k < 8 && len(b) >= 4:
		off := 4 * r.Intn(len(b)/4)
		if r.Chance(0.6) && len(b) > 64 {
			off = 4 * r.Intn(16)
		}
		v := hostileInts[r.Intn(len(hostileInts))]
		binary.LittleEndian.PutUint32(b[off:], v)
		return mutant{fmt.Sprintf("uint32 at %d := %#x", off, v), b}
	case k < 9:
		g := r.Bytes(1 + r.Intn(40))
		return mutant{fmt.Sprintf("append %d garbage bytes", len(g)), append(b, g...)}
	default:
		if len(b) >= 8 {
			off := r.Intn(len(b) - 7)
			binary.LittleEndian.PutUint64(b[off:], ^uint64(0)>>uint(r.Intn(3)))
			return mutant{fmt.Sprintf("uint64 at %d := huge", off), b}
		}
		return mutant{"empty", nil}
	}
}

func (s *c20Sess) mutateJSON(valid []byte) mutant {
	r := s.r
	str := string(valid)
	switch r.Intn(8) {
	case 0:
		n := r.Intn(len(str) + 1)
		return mutant{fmt.Sprintf("truncate JSON to %d", n), []byte(str[:n])}
	case 1, 2:
		// replace one number
		var idx [][2]int
		for i := 0; i < len(str); {
			if str[i] >= '0' && str[i] <= '9' {
				j := i
				for j < len(str) && str[j] >= '0' && str[j] <= '9' {
					j++
				}
				idx = append(idx, [2]int{i, j})
				i = j
			} else {
				i++
			}
		}
		if len(idx) == 0 {
			return mutant{"append", []byte(str + "]")}
		}
		p := idx[r.Intn(len(idx))]
		rep := []string{"-1", "99999999999999999999999", "18446744073709551615", "18446744073709551616", "2147483648", "-2147483649", "1e400", "\"x\"", "null", "[]", "{}", "0.5", "0"}[r.Intn(13)]
		return mutant{fmt.Sprintf("number at %d := %s", p[0], rep), []byte(str[:p[0]] + rep + str[p[1]:])}
	case 3:
		return mutant{"wrap in list", []byte("[" + str + "]")}
	case 4:
		return mutant{"wrap in object", []byte("{\"a\":" + str + "}")}
	case 5:
		rep := strings.NewReplacer("[", "{", "]", "}")
		return mutant{"brackets to braces", []byte(rep.Replace(str))}
	case 6:
		return mutant{"deep nesting", []byte(strings.Repeat("[", 5000) + strings.Repeat("]", 5000))}
	default:
		return s.mutateBytes(valid)
	}
}

// parse a labelmap block stream into frames
type frame struct {
	x, y, z int32
	gz      []byte
}

func parseFrames(b []byte) []frame {
	var out []frame
	for len(b) >= 16 {
		n := int(binary.LittleEndian.Uint32(b[12:]))
		if n < 0 || 16+n > len(b) {
			break
		}
		out = append(out, frame{int32(binary.LittleEndian.Uint32(b[0:])), int32(binary.LittleEndian.Uint32(b[4:])), int32(binary.LittleEndian.Uint32(b[8:])), b[16 : 16+n]})
		b = b[16+n:]
	}
	return out
}

func gunzip(b []byte) []byte {
	zr, err := gzip.NewReader(bytes.NewReader(b))
	if err != nil {
		return nil
	}
	out, _ := io.ReadAll(zr)
	return out
}

func gz(b []byte) []byte {
	var buf bytes.Buffer
	zw := gzip.NewWriter(&buf)
	zw.Write(b)
	zw.Close()
	return buf.Bytes()
}

func joinFrames(fs []frame) []byte {
	var out []byte
	for _, f := range fs {
		var h [16]byte
		binary.LittleEndian.PutUint32(h[0:], uint32(f.x))
		binary.LittleEndian.PutUint32(h[4:], uint32(f.y))
		binary.LittleEndian.PutUint32(h[8:], uint32(f.z))
		binary.LittleEndian.PutUint32(h[12:], uint32(len(f.gz)))
		out = append(out, h[:]...)
		out = append(out, f.gz...)
	}
	return out
}

// mutateBlockInner: damage the compressed-block structure itself (header counts, label table, per-sub-block
// counts, index lists, packed values) and re-wrap it in valid gzip and framing
func (s *c20Sess) mutateBlockInner(inner []byte) ([]byte, string) {
	r := s.r
	b := append([]byte{}, inner...)
	if len(b) < 24 {
		return b, "short block"
	}
	numLabels := int(binary.LittleEndian.Uint32(b[12:]))
	gx, gy, gzz := int(binary.LittleEndian.Uint32(b[0:])), int(binary.LittleEndian.Uint32(b[4:])), int(binary.LittleEndian.Uint32(b[8:]))
	nsb := gx * gy * gzz
	posCounts := 16 + 8*numLabels
	posIdx := posCounts + 2*nsb
	switch r.Intn(10) {
	case 8:
		// a block rebuilt from scratch, every table consistent, except that one sub-block lists more labels
		// than a sub-block has voxels (513..numLabels of a table of 513..712 labels); 512 is the legal maximum
		if nsb > 0 && nsb <= 64 {
			L := 513 + r.Intn(200)
			n := []int{512, 513, 513 + r.Intn(L-512), L}[r.Intn(4)]
			k := r.Intn(nsb)
			nb := make([]byte, 16, 16+8*L+2*nsb+4*(n+nsb)+640)
			copy(nb, b[:12])
			binary.LittleEndian.PutUint32(nb[12:], uint32(L))
			for i := 0; i < L; i++ {
				nb = binary.LittleEndian.AppendUint64(nb, uint64(1000+i))
			}
			for i := 0; i < nsb; i++ {
				c := 1
				if i == k {
					c = n
				}
				nb = binary.LittleEndian.AppendUint16(nb, uint16(c))
			}
			for i := 0; i < nsb; i++ {
				c := 1
				if i == k {
					c = n
				}
				for j := 0; j < c; j++ {
					nb = binary.LittleEndian.AppendUint32(nb, uint32(j))
				}
			}
			bits := 9
			if n > 512 {
				bits = 10
			}
			nb = append(nb, make([]byte, 64*bits)...)
			return nb, fmt.Sprintf("rebuilt block: table of %d labels, sub-block %d lists %d labels (consistent index list and %d value bytes)", L, k, n, 64*bits)
		}
	case 0:
		v := hostileInts[r.Intn(len(hostileInts))]
		binary.LittleEndian.PutUint32(b[12:], v)
		return b, fmt.Sprintf("numLabels := %#x", v)
	case 1:
		v := []uint32{0, 1, 5, 64, 255, 0xFFFFFFFF}[r.Intn(6)]
		o := 4 * r.Intn(3)
		binary.LittleEndian.PutUint32(b[o:], v)
		return b, fmt.Sprintf("grid dim at %d := %d", o, v)
	case 2:
		if numLabels > 1 && posIdx <= len(b) && nsb > 0 {
			k := r.Intn(nsb)
			v := []uint16{0, 1, 2, 511, 512, 513, 4096, 0xFFFF}[r.Intn(8)]
			binary.LittleEndian.PutUint16(b[posCounts+2*k:], v)
			return b, fmt.Sprintf("label count of sub-block %d := %d", k, v)
		}
	case 3:
		if numLabels > 1 && posIdx+4 <= len(b) {
			nIdx := 0
			for k := 0; k < nsb; k++ {
				nIdx += int(binary.LittleEndian.Uint16(b[posCounts+2*k:]))
			}
			if nIdx > 0 && posIdx+4*nIdx <= len(b) {
				k := r.Intn(nIdx)
				v := []uint32{uint32(numLabels), uint32(numLabels + 1), 0xFFFFFFFF, 0x7FFFFFFF, 1 << 16}[r.Intn(5)]
				binary.LittleEndian.PutUint32(b[posIdx+4*k:], v)
				return b, fmt.Sprintf("index list entry %d := %d (table has %d labels)", k, v, numLabels)
			}
		}
	case 4:
		n := 24 + r.Intn(len(b)-23)
		if n > len(b) {
			n = len(b)
		}
		return b[:n], fmt.Sprintf("inner block truncated to %d of %d", n, len(b))
	case 5:
		// packed values: set a run of value bytes to 0xFF (indices beyond the sub-block's list)
		if len(b) > posIdx+8 {
			o := posIdx + r.Intn(len(b)-posIdx)
			for i := o; i < len(b) && i < o+64; i++ {
				b[i] = 0xFF
			}
			return b, fmt.Sprintf("bytes %d.. := 0xFF (packed values / index lists)", o)
		}
	case 6:
		if numLabels >= 1 {
			k := r.Intn(numLabels)
			if 16+8*k+8 <= len(b) {
				binary.LittleEndian.PutUint64(b[16+8*k:], ^uint64(0))
				return b, fmt.Sprintf("label %d := 2^64-1", k)
			}
		}
	case 7:
		return b[:24], "inner block cut to 24 bytes"
	}
	m := s.mutateBytes(b)
	return m.body, "inner " + m.how
}

// sameShardMerge: a well-formed merge whose merged body's label is congruent to the target's modulo the number
// of index lock shards (64): the request must return like any other merge
func (s *c20Sess) sameShardMerge() {
	w := s.w
	var n *wnode
	for _, x := range w.open() {
		if x.lm != nil {
			n = x
		}
	}
	if n == nil {
		return
	}
	var ids []uint64
	for b := range w.lmBodies(n) {
		ids = append(ids, b)
	}
	if len(ids) == 0 {
		return
	}
	sort.Slice(ids, func(i, j int) bool { return ids[i] < ids[j] })
	target := ids[w.r.Intn(len(ids))]
	first := target + 64
	for first < w.nextSV {
		first += 64
	}
	w.nextSV = first
	for try := 0; try < 3; try++ {
		w.lmIngest(n, false)
		if _, ok := w.lmBodies(n)[first]; ok {
			break
		}
	}
	bodies := w.lmBodies(n)
	if _, ok := bodies[first]; !ok || len(bodies[target]) == 0 {
		return
	}
	body, _ := json.Marshal([]uint64{target, first})
	r, ok := s.send("lm/merge", "POST", "node/"+n.uuid+"/lm/merge", body, fmt.Sprintf("well-formed merge of bodies %d and %d (labels congruent modulo 64)", target, first))
	if ok && r.OK() {
		for _, sv := range bodies[first] {
			n.lm.m[sv] = target
		}
		w.log("lm merge [%d %d] at v%d (same index lock shard)", target, first, n.v)
		s.c.Count("well-formed same-shard merge")
	}
	w.settle()
}

func (s *c20Sess) mutateStream(valid []byte) mutant {
	fs := parseFrames(valid)
	if len(fs) == 0 || s.r.Chance(0.25) {
		m := s.mutateBytes(valid)
		m.how = "outer " + m.how
		return m
	}
	k := s.r.Intn(len(fs))
	inner := gunzip(fs[k].gz)
	if inner == nil {
		return s.mutateBytes(valid)
	}
	nb, how := s.mutateBlockInner(inner)
	nf := append([]frame{}, fs...)
	nf[k].gz = gz(nb)
	if s.r.Chance(0.3) {
		nf = nf[k : k+1]
	}
	return mutant{fmt.Sprintf("block %d of %d (%d,%d,%d): %s", k, len(fs), fs[k].x, fs[k].y, fs[k].z, how), joinFrames(nf)}
}

// ---- catalogue of valid payloads, taken from what the server itself serves for the world's data ----

func (s *c20Sess) catalogue(n *wnode) []hostileEP {
	var eps []hostileEP
	get := func(path string) []byte {
		r, _ := s.ch.HTTP("GET", "node/"+n.uuid+"/"+path, nil)
		if !r.OK() {
			return nil
		}
		return r.Body
	}
	add := func(name, method, path string, valid []byte, kind string, mustFail func(m mutant) bool) {
		if valid == nil {
			return
		}
		eps = append(eps, hostileEP{name, method, path, valid, kind, mustFail})
	}
	truncated := func(m mutant) bool { return strings.HasPrefix(m.how, "truncate") }
	if s.w.hasLM {
		stream := get("lm/blocks/64_64_64/0_0_0?compression=blocks&supervoxels=true")
		add("lm/blocks", "POST", "lm/blocks", stream, "blockstream", nil)
		add("lm/ingest-supervoxels", "POST", "lm/ingest-supervoxels", stream, "blockstream", nil)
		raw := get("lm/raw/0_1_2/64_64_64/0_0_0?supervoxels=true")
		add("lm/raw", "POST", "lm/raw/0_1_2/64_64_64/0_0_0", raw, "rawvol", truncated)
		add("lm/raw?mutate", "POST", "lm/raw/0_1_2/64_64_64/0_0_0?mutate=true", raw, "rawvol", truncated)
		bodies := s.w.lmBodies(n)
		var ids []uint64
		for b := range bodies {
			ids = append(ids, b)
		}
		sort.Slice(ids, func(i, j int) bool { return ids[i] < ids[j] })
		if len(ids) > 0 {
			b0 := ids[0]
			add("lm/index", "POST", fmt.Sprintf("lm/index/%d", b0), get(fmt.Sprintf("lm/index/%d", b0)), "proto", nil)
			if idx := get(fmt.Sprintf("lm/index/%d", b0)); idx != nil {
				var li proto.LabelIndex
				if pb.Unmarshal(idx, &li) == nil {
					out, _ := pb.Marshal(&proto.LabelIndices{Indices: []*proto.LabelIndex{&li}})
					add("lm/indices", "POST", "lm/indices", out, "proto", nil)
				}
			}
			sv := bodies[b0][0]
			// sparse volume of the lower half of a supervoxel, in DVID's RLE encoding
			var spans [][4]int32
			for z := 0; z < lmN; z++ {
				for y := 0; y < lmN; y++ {
					row := n.lm.vox[z*lmN+y]
					for x := 0; x < lmN; {
						if row[x] != sv || z >= lmN/2 {
							x++
							continue
						}
						x0 := x
						for x < lmN && row[x] == sv {
							x++
						}
						spans = append(spans, [4]int32{int32(x0), int32(y), int32(z), int32(x - x0)})
					}
				}
			}
			if len(spans) > 0 {
				var buf bytes.Buffer
				buf.Write([]byte{0, 3, 0, 0})
				binary.Write(&buf, binary.LittleEndian, uint32(0))
				binary.Write(&buf, binary.LittleEndian, uint32(len(spans)))
				for _, sp := range spans {
					binary.Write(&buf, binary.LittleEndian, sp)
				}
				add("lm/split-supervoxel", "POST", fmt.Sprintf("lm/split-supervoxel/%d", sv), buf.Bytes(), "rle", nil)
				add("lm/split", "POST", fmt.Sprintf("lm/split/%d", b0), buf.Bytes(), "rle", nil)
			}
			if len(ids) > 1 {
				add("lm/merge", "POST", "lm/merge", []byte(fmt.Sprintf("[%d,%d]", ids[0], ids[1])), "json", nil)
				add("lm/renumber", "POST", "lm/renumber", []byte(fmt.Sprintf("[%d,%d]", 900000+s.r.Intn(1000), ids[1])), "json", nil)
			}
			if len(bodies[b0]) > 1 {
				add("lm/cleave", "POST", fmt.Sprintf("lm/cleave/%d", b0), []byte(fmt.Sprintf("[%d]", bodies[b0][1])), "json", nil)
			}
			mo, _ := pb.Marshal(&proto.MappingOps{Mappings: []*proto.MappingOp{{Mutid: 1, Mapped: b0, Original: []uint64{bodies[b0][0]}}}})
			add("lm/mappings", "POST", "lm/mappings", mo, "proto", nil)
		}
	}
	if s.w.hasAnn {
		if el := get("ann/all-elements"); el != nil {
			// all-elements is a map block -> elements; POST blocks takes the same shape, POST elements a flat list
			var m map[string][]json.RawMessage
			if json.Unmarshal(el, &m) == nil {
				var flat []json.RawMessage
				for _, l := range m {
					flat = append(flat, l...)
				}
				if len(flat) > 0 {
					fb, _ := json.Marshal(flat)
					add("ann/elements", "POST", "ann/elements", fb, "json", nil)
					add("ann/blocks", "POST", "ann/blocks", el, "json", nil)
					var e0 struct{ Pos [3]int }
					json.Unmarshal(flat[0], &e0)
					add("ann/move", "POST", fmt.Sprintf("ann/move/%d_%d_%d/%d_%d_%d", e0.Pos[0], e0.Pos[1], e0.Pos[2], e0.Pos[0]+1, e0.Pos[1], e0.Pos[2]), []byte{}, "json", nil)
				}
			}
		}
	}
	add("kv/key", "POST", "kv/key/hostile", []byte("some value"), "bin", nil)
	kvs, _ := pb.Marshal(&proto.KeyValues{Kvs: []*proto.KeyValue{{Key: "hostile1", Value: []byte("v1")}, {Key: "hostile2", Value: []byte("v2")}}})
	add("kv/keyvalues", "POST", "kv/keyvalues", kvs, "proto", nil)
	if s.w.hasNJ {
		add("nj/key", "POST", "nj/key/77001?u=tester", []byte(`{"bodyid":77001,"status":"traced","position":[1,2,3],"group":5}`), "json", nil)
		njkvs, _ := pb.Marshal(&proto.KeyValues{Kvs: []*proto.KeyValue{{Key: "77002", Value: []byte(`{"bodyid":77002,"a":1}`)}}})
		add("nj/keyvalues", "POST", "nj/keyvalues?u=tester", njkvs, "proto", nil)
		add("nj/query", "POST", "nj/query", []byte(`{"status":"traced"}`), "json", nil)
	}
	add("roi/roi", "POST", "roi1/roi", []byte(`[[0,0,0,1],[0,1,0,2],[1,0,-1,1]]`), "json", nil)
	add("roi/ptquery", "POST", "roi1/ptquery", []byte(`[[1,2,3],[40,40,40],[-5,3,2]]`), "json", nil)
	g := make([]byte, 32*32*32)
	for i := range g {
		g[i] = byte(i % 251)
	}
	add("gray/raw", "POST", "gray/raw/0_1_2/32_32_32/0_0_0", g, "rawvol", truncated)
	add("gray/blocks", "POST", "gray/blocks/1_0_0/1", g, "rawvol", truncated)
	return eps
}

var hostileURLs = []string{
	"lm/raw/0_1_2/100000_100000_100000/0_0_0", "lm/raw/0_1_2/-1_-1_-1/0_0_0", "lm/raw/0_1_2/0_0_0/0_0_0", "lm/raw/0_1_2/a_b_c/0_0_0",
	"lm/raw/0_1_2/64_64_64/2147483647_2147483647_2147483647", "lm/raw/0_1_2/64_64_64/-2147483648_0_0", "lm/raw/0_1_2/64_64/0_0_0",
	"lm/raw/0_1/64_64/0_0_0", "lm/raw/0_1/4294967296_1/0_0_0", "lm/raw/0_1_2/64_64_64/0_0_0?scale=99", "lm/raw/0_1_2/64_64_64/0_0_0?scale=-1",
	"lm/blocks/64_64_64/1_1_1", "lm/blocks/0_0_0/0_0_0", "lm/blocks/-64_64_64/0_0_0", "lm/specificblocks?blocks=1,2", "lm/specificblocks?blocks=a,b,c",
	"lm/specificblocks?blocks=2147483647,2147483647,2147483647", "lm/label/0_0", "lm/label/x_y_z", "lm/label/2147483647_2147483647_2147483647", "lm/label/-1_-1_-1",
	"lm/size/0", "lm/size/18446744073709551615", "lm/size/18446744073709551616", "lm/size/-1", "lm/size/abc", "lm/sizes", "lm/supervoxels/0", "lm/supervoxels/18446744073709551615",
	"lm/sparsevol/0", "lm/sparsevol/18446744073709551615", "lm/sparsevol/1?minx=5&maxx=-5", "lm/sparsevol/1?format=blocks&scale=200", "lm/sparsevol/1?minz=a", "lm/sparsevol-coarse/0",
	"lm/sparsevol-size/18446744073709551615", "lm/sparsevol-by-point/1_2", "lm/sparsevol-by-point/-9999999_0_0", "lm/index/0", "lm/index/18446744073709551615", "lm/mapping", "lm/labels",
	"lm/supervoxel-sizes/0", "lm/maxlabel", "lm/nextlabel/0", "lm/nextlabel/18446744073709551615", "lm/listlabels?start=18446744073709551615&number=100000000", "lm/listlabels?number=-1",
	"lm/history/0/a/b", "lm/tile/xy/0/0_0_0", "lm/pseudocolor/0_1/64_64/0_0_0", "lm/pseudocolor/0_1/100000_100000/0_0_0", "lm/isotropic/0_1/64_64/0_0_0",
	"ann/elements/0_0_0/0_0_0", "ann/elements/-1_5_5/0_0_0", "ann/elements/a/b", "ann/label/0", "ann/label/18446744073709551616",
	"ann/label/-5", "ann/tag/", "ann/tag/%00%ff", "ann/blocks/64_64_64/a", "ann/scan", "ann/roi/nosuchroi", "ann/move/1_2_3/4_5", "ann/element/1_2",
	"kv/key/", "kv/keyrange/z/a", "kv/keyrange/a", "kv/keyrangevalues/z/a?json=true", "kv/keyvalues?jsontar=true", "kv/key/" + strings.Repeat("k", 70000),
	"nj/key/abc", "nj/key/-1", "nj/key/18446744073709551616", "nj/keyrange/9/1", "nj/keyrangevalues/9/1", "nj/keyrangevalues/1002/1000", "nj/keyrangevalues/a/b", "nj/all?fields=,,,", "nj/all?show=zzz",
	"nj/fields?counts=maybe", "nj/keyvalues", "nj/schema", "nj/json_schema",
	"roi1/roi", "roi1/mask/0_1_2/100000_100000_100000/0_0_0", "roi1/mask/0_1_2/-5_5_5/0_0_0", "roi1/partition?batchsize=0", "roi1/partition?batchsize=100000000&optimized=true", "roi1/ptquery",
	"gray/raw/0_1_2/100000_100000_100000/0_0_0", "gray/raw/0_1_2/-3_3_3/0_0_0", "gray/raw/0_1/0_0/0_0_0", "gray/raw/0_1/70000_70000/0_0_0", "gray/raw/0_1_2/32_32_32/0_0", "gray/raw/2_1_0/32_32_32/0_0_0",
	"gray/blocks/0_0_0/0", "gray/blocks/0_0_0/-1", "gray/blocks/0_0_0/100000000", "gray/blocks/a_b_c/1", "gray/subvolblocks/32_32_32/1_1_1", "gray/subvolblocks/0_0_0/0_0_0", "gray/subvolblocks/32_32",
	"gray/specificblocks?blocks=1", "gray/specificblocks?blocks=x,y,z", "gray/arb/0_0_0/10_0_0/0_10_0/-1", "gray/arb/0_0_0/0_0_0/0_0_0/1", "gray/arb/a/b/c/d", "gray/isotropic/0_1/100000_100000/0_0_0",
	"gray/rawkey?x=a", "gray/metadata", "gray/tile/0",
}

// dataAwareURLs: hostile parameter combinations built from identifiers that exist in the world (reversed and
// degenerate ranges over stored keys, bounds that exclude everything, existing labels with absurd options)
func (s *c20Sess) dataAwareURLs(n *wnode) []string {
	var out []string
	if s.w.hasNJ {
		out = append(out, "nj/keys", "nj/keyrange/1004/1000", "nj/keyrangevalues/1004/1000", "nj/keyrangevalues/1003/1001", "nj/keyrangevalues/1004/1000?json=true",
			"nj/keyrangevalues/1000/1000", "nj/keyrangevalues/0/18446744073709551615", "nj/keyrangevalues/18446744073709551615/0", "nj/keyrange/18446744073709551615/0",
			"nj/keyrangevalues/1004/1000?fields=name", "nj/keyrangevalues/1004/1000?show=all")
	}
	out = append(out, "kv/keyrange/k2/a", "kv/keyrangevalues/k2/a", "kv/keyrangevalues/k2/a?jsontar=true", "kv/keyrange/b/ab")
	if s.w.hasLM && n.lm != nil {
		var ids []uint64
		for b := range s.w.lmBodies(n) {
			ids = append(ids, b)
		}
		sort.Slice(ids, func(i, j int) bool { return ids[i] < ids[j] })
		for i, b := range ids {
			if i > 2 {
				break
			}
			out = append(out, fmt.Sprintf("lm/sparsevol/%d?minx=60&maxx=2", b), fmt.Sprintf("lm/sparsevol/%d?minz=1000", b), fmt.Sprintf("lm/sparsevol/%d?format=blocks&minx=60&maxx=2", b),
				fmt.Sprintf("lm/sparsevol/%d?scale=5", b), fmt.Sprintf("lm/sparsevol/%d?format=srles&miny=-2147483648&maxy=2147483647", b), fmt.Sprintf("lm/sparsevol-coarse/%d?minx=9&maxx=1", b),
				fmt.Sprintf("lm/sparsevol-size/%d?supervoxels=true", b), fmt.Sprintf("lm/supervoxel-sizes/%d", b), fmt.Sprintf("lm/lastmod/%d", b), fmt.Sprintf("lm/index/%d?mutid=x", b),
				fmt.Sprintf("lm/sizes?supervoxels=maybe"), fmt.Sprintf("lm/listlabels?start=%d&number=0", b), fmt.Sprintf("lm/listlabels?start=%d&number=18446744073709551615", b))
		}
	}
	if s.w.hasAnn {
		out = append(out, "ann/elements/1_1_1/63_63_63", "ann/elements/64_64_64/-64_-64_-64", "ann/blocks/64_64_64/0_0_0", "ann/blocks/1_1_1/0_0_0", "ann/all-elements?relationships=maybe", "ann/tag/"+annTags[0]+"?relationships=true")
	}
	return out
}

// njDual: neuron annotations are answered by two code paths (in-memory head of the master branch, store for
// every other version); a small repo whose head and committed parent hold the same annotations gets every
// neuronjson URL on both
func (s *c20Sess) njDual() {
	if s.ch == nil || s.ch.dead {
		return
	}
	r, ok := s.ch.HTTP("POST", "repos", []byte(`{"alias":"njdual","description":"d"}`))
	if !ok || !r.OK() {
		return
	}
	root := jsonField(r.Body, "root")
	s.ch.HTTP("POST", "repo/"+root+"/instance", []byte(`{"typename":"neuronjson","dataname":"njd"}`))
	for _, id := range []int{1000, 1001, 1003, 1004, 5} {
		s.ch.HTTP("POST", fmt.Sprintf("node/%s/njd/key/%d?u=tester", root, id), []byte(fmt.Sprintf(`{"bodyid":%d,"name":"n%d","size":%d}`, id, id, id%7)))
	}
	s.ch.HTTP("POST", "node/"+root+"/commit", []byte(`{"note":"c"}`))
	rr, _ := s.ch.HTTP("POST", "node/"+root+"/newversion", []byte(`{"note":"n"}`))
	head := jsonField(rr.Body, "child")
	if head == "" {
		return
	}
	var urls []string
	for _, u := range append(append([]string{}, hostileURLs...), s.dataAwareURLs(&wnode{})...) {
		if strings.HasPrefix(u, "nj/") {
			urls = append(urls, "njd/"+u[3:])
		}
	}
	for _, u := range urls {
		for _, v := range []string{head, root} {
			if _, ok := s.send("url "+strings.SplitN(u, "?", 2)[0], "GET", "node/"+v+"/"+u, nil, "hostile URL"); !ok {
				return
			}
			s.c.Count("hostile URL (neuronjson head and store)")
			s.c.Eval("njdual "+u+" "+map[bool]string{true: "head", false: "store"}[v == head], true)
		}
	}
	s.alive("neuronjson dual-path URLs")
}

func (s *c20Sess) alive(tag string) bool {
	r, ok := s.ch.HTTP("GET", "server/info", nil)
	if !ok || !r.OK() {
		if ok {
			s.c.Report("O", "C20 not-serving", "after hostile requests the server no longer answers a plain request", s.replay(tag+": GET server/info -> "+r.String()))
		} else {
			s.restart()
		}
		return false
	}
	return true
}

// idle: every instance must report idle again (a flag left set makes later requests block forever)
func (s *c20Sess) idle(tag string) bool {
	for _, name := range []string{"lm", "ann"} {
		ln, ok := s.ch.AskT(fmt.Sprintf("SETTLE %s %s", s.w.root, name), 25*time.Second)
		if !ok {
			s.c.Report("O", "C20 never-idle "+name, "after a hostile request the instance never reports idle again (background update flag left set, or a sync goroutine gone)", s.replay(tag+": "+ln))
			s.restart()
			return false
		}
	}
	return true
}

func (s *c20Sess) untouched(tag string) bool {
	snap := s.w.Snapshot()
	delete(snap, "repo/info")
	var diffs []string
	for k, v := range s.base {
		if strings.Contains(k, "nextlabel") {
			continue // instance-wide counter: an accepted request may move it
		}
		if snap[k] != v {
			diffs = append(diffs, fmt.Sprintf("%s: before %s / after %s", k, trunc(v), trunc(snap[k])))
		}
	}
	sort.Strings(diffs)
	s.c.Eval("snapshot after "+tag, true)
	if len(diffs) > 0 {
		if len(diffs) > 8 {
			diffs = diffs[:8]
		}
		s.c.Report("O", "C20 untouched-data-changed "+strings.SplitN(tag, " ", 2)[0], "data of versions that no hostile request named reads differently afterwards", s.replay(tag+"\n"+strings.Join(diffs, "\n")))
		// take the new state as the base so that one change is reported once
		s.base = snap
		delete(s.base, "repo/info")
		return false
	}
	return true
}

func runC20(c *Ctx) {
	c.Rule = "a case is one hostile request (a byte-level mutant of a valid payload of an ingestion/mutation endpoint — truncation, bit flips, inflated length and count fields, indices outside their tables, damaged compressed-block structure re-wrapped in valid gzip framing, malformed JSON — or a syntactically hostile URL) sent to a scratch version of a real server process holding a generated multi-version world, followed per batch by liveness, idle and untouched-data checks; or one byte string given to a binary parser at package level and to the Lean model. non-trivial = the request reached an endpoint handler (it was not refused by routing); distinct by endpoint, mutation and position"
	nMut := 30
	if c.Thorough {
		nMut = 400
	}
	c.c20Parsers(map[bool]int{false: 1500, true: 20000}[c.Thorough])
	c.c20RLEs(map[bool]int{false: 1500, true: 20000}[c.Thorough])
	sessions := 1
	if c.Thorough {
		sessions = 3
	}
	for si := 0; si < sessions; si++ {
		s := &c20Sess{c: c, r: c.Rng.Fork(), dir: scratchDir("c20")}
		ch, msg := StartChild(s.dir, nil)
		if ch == nil {
			c.Report("H", "C20 child", "cannot start server process", msg)
			os.RemoveAll(s.dir)
			return
		}
		s.ch = ch
		s.run(nMut)
		if s.ch != nil {
			s.ch.Stop("EXIT")
		}
		os.RemoveAll(s.dir)
	}
	panicMu.Lock()
	defer panicMu.Unlock()
	c.Extra["panic_responses_seen"] = len(panicSeen)
}

func (s *c20Sess) run(nMut int) {
	c := s.c
	panicMu.Lock()
	panicBase := len(panicSeen) // responses of earlier sessions (hostile requests) are not this world's workload
	panicMu.Unlock()
	w := NewWorld(c, s.ch, s.r.Fork(), true, true, true)
	s.w = w
	w.must("POST", "repo/"+w.root+"/instance", []byte(`{"typename":"roi","dataname":"roi1"}`))
	w.must("POST", "repo/"+w.root+"/instance", []byte(`{"typename":"uint8blk","dataname":"gray","BlockSize":"32,32,32"}`))
	w.must("POST", "node/"+w.root+"/roi1/roi", []byte(`[[0,0,0,1],[1,1,0,0]]`))
	w.must("POST", "node/"+w.root+"/gray/raw/0_1_2/32_32_32/0_0_0", bytes.Repeat([]byte{9}, 32*32*32))
	// the world's own well-formed workload: any recovered panic here is a violation by itself
	for i := 0; i < 40; i++ {
		w.Step()
	}
	var n *wnode
	for tries := 0; tries < 60 && n == nil; tries++ {
		for _, x := range w.open() {
			if x.lm != nil && len(w.lmBodies(x)) >= 2 && len(x.ann) > 0 {
				n = x
			}
		}
		if n == nil {
			w.Step()
		}
	}
	panicMu.Lock()
	for _, p := range panicSeen[panicBase:] {
		c.Report("O", "C20 panic-recovered well-formed "+panicClass(p), "a well-formed request of the model-based workload was answered with a recovered panic", p+"\nworld history:\n"+strings.Join(w.hist, "\n"))
	}
	panicMu.Unlock()
	if n == nil {
		c.Report("H", "C20 world", "the generated world has no version with two bodies and annotations", strings.Join(w.hist, "\n"))
		return
	}
	w.settle()
	s.sameShardMerge()
	eps := s.catalogue(n)
	w.commit(n)
	r := w.must("POST", "node/"+n.uuid+"/newversion", []byte(`{"note":"hostile target"}`))
	s.H = jsonField(r.Body, "child")
	s.base = w.Snapshot()
	delete(s.base, "repo/info")
	// every read of the snapshot is a well-formed request: none may be answered with a recovered panic
	var pk []string
	for k := range s.base {
		pk = append(pk, k)
	}
	sort.Strings(pk)
	for _, k := range pk {
		if v := s.base[k]; strings.HasPrefix(v, "500 ") && strings.Contains(v, "Panic detected") {
			ep := k
			if i := strings.Index(ep, ":"); i >= 0 {
				ep = ep[i+1:]
			}
			c.Report("O", "C20 panic-recovered well-formed-read "+c03Sig(k), "a well-formed read request of the workload was answered with a recovered panic (HTTP 500)",
				fmt.Sprintf("GET %s -> %s\nhistory:\n  %s", k, v, strings.Join(w.hist, "\n  ")))
			break
		}
	}
	c.Count(fmt.Sprintf("endpoints in catalogue: %d", len(eps)))

	for _, ep := range eps {
		path := "node/" + s.H + "/" + ep.path
		ok := true
		for k := 0; k < nMut; k++ {
			var m mutant
			switch ep.kind {
			case "json":
				m = s.mutateJSON(ep.valid)
			case "blockstream":
				m = s.mutateStream(ep.valid)
			default:
				m = s.mutateBytes(ep.valid)
			}
			rr, ok := s.send(ep.name, ep.method, path, m.body, m.how)
			c.Eval(ep.name+" "+m.how, rr.Code != 404 || ok)
			cls := "5xx"
			switch {
			case !ok:
				cls = "died"
			case rr.Code == 200:
				cls = "200"
			case rr.Code >= 400 && rr.Code < 500:
				cls = "4xx"
			}
			c.Count("mutant " + ep.kind + " -> " + cls)
			if !ok {
				break
			}
			if ep.mustFail != nil && ep.mustFail(m) && rr.Code == 200 {
				c.Report("O", "C20 malformed-accepted "+ep.name, "a payload of the wrong length was accepted", s.replay(fmt.Sprintf("%s %s [%s] -> %s", ep.method, path, m.how, rr)))
			}
		}
		// the valid payload last (so that the mutants meet the state it applies to): a conforming request must
		// not be answered with a panic
		if ok {
			var rv Resp
			rv, ok = s.send(ep.name, ep.method, path, ep.valid, "valid payload")
			c.Eval(ep.name+" valid", true)
			c.Count("valid " + ep.name + fmt.Sprintf(" -> %d", rv.Code))
		}
		if !ok {
			continue
		}
		if !s.alive(ep.name) {
			continue
		}
		if !s.idle(ep.name) {
			continue
		}
		s.untouched(ep.name + " mutants")
	}
	// hostile URLs: every method against the scratch version; read-only methods also against every world version
	// (a version served from another code path — in-memory head, committed store — must hold up as well)
	urls := append([]string{}, hostileURLs...)
	urls = append(urls, s.dataAwareURLs(n)...)
	for _, u := range urls {
		for _, method := range []string{"GET", "POST", "DELETE", "HEAD"} {
			var body []byte
			if method == "POST" {
				body = []byte("[1,2,3]")
			}
			targets := []string{s.H}
			if method == "GET" && !strings.HasPrefix(u, "gray/") && !strings.HasPrefix(u, "roi1/") {
				// two world versions as well (one early, one late), read-only
				targets = append(targets, w.nodes[0].uuid, w.nodes[len(w.nodes)-1].uuid)
			}
			dead := false
			for _, t := range targets {
				rr, ok := s.send("url "+strings.SplitN(u, "?", 2)[0], method, "node/"+t+"/"+u, body, "hostile URL")
				c.Eval(method+" "+u, rr.Code != 404)
				c.Count("hostile URL")
				if !ok {
					dead = true
					break
				}
			}
			if dead {
				break
			}
		}
	}
	if s.alive("hostile URLs") && s.idle("hostile URLs") {
		s.untouched("hostile-URLs")
	}
	s.njDual()
	sort.Strings(s.urlPanics)
	c.Extra["hostile_urls_answered_with_recovered_panic"] = s.urlPanics
	// afterwards the server still does real work
	if s.ch != nil && !s.ch.dead {
		rr, ok := s.ch.HTTP("POST", "node/"+s.H+"/kv/key/after", []byte("still here"))
		if ok && !rr.OK() {
			c.Report("O", "C20 not-serving", "after the hostile workload a plain write is refused", s.replay(rr.String()))
		}
	}
}

// ---- package-level parsers against the Lean model ----

func (c *Ctx) c20Parsers(n int) {
	r := c.Rng.Fork()
	// valid compressed blocks from generated label arrays, then damaged
	for k := 0; k < n; k++ {
		sx := 16 * (1 + r.Intn(2))
		v, _ := genVol(r, c, sx, 16, 16)
		blk, err := labels.MakeBlock(v.bytes(), v.size())
		if err != nil {
			continue
		}
		ser, _ := blk.MarshalBinary()
		s := &c20Sess{c: c, r: r}
		var body []byte
		var how string
		if r.Chance(0.15) {
			body, how = ser, "valid"
		} else {
			body, how = s.mutateBlockInner(ser)
		}
		impl := parseAndDecode(body)
		op := "blk.parse " + hx(body)
		c.Eval("blk.parse "+how, how != "valid")
		c.Count("parser block: " + strings.SplitN(impl, " ", 2)[0])
		if strings.HasPrefix(impl, "panic") {
			c.Report("O", "C20 parser-panics labels.Block "+panicClass(impl), "decoding a damaged compressed block panics instead of returning an error", fmt.Sprintf("block bytes (hex): %s\nmutation: %s\noutcome: %s\n", hx(body), how, impl))
			continue
		}
		c.AskCmp("C20-block-parser", op, impl)
	}
}

// c20RLEs: sparse-volume payloads (valid and damaged) through dvid.ReadRLEs and the Lean reader
func (c *Ctx) c20RLEs(n int) {
	r := c.Rng.Fork()
	s := &c20Sess{c: c, r: r}
	for k := 0; k < n; k++ {
		nr := r.Intn(6)
		var buf bytes.Buffer
		buf.Write([]byte{0, 3, 0, 0, 0, 0, 0, 0})
		binary.Write(&buf, binary.LittleEndian, uint32(nr))
		for i := 0; i < nr; i++ {
			for _, v := range []int32{int32(r.Intn(200) - 100), int32(r.Intn(200) - 100), int32(r.Intn(200) - 100), int32(1 + r.Intn(40))} {
				binary.Write(&buf, binary.LittleEndian, v)
			}
		}
		body, how := buf.Bytes(), "valid"
		if r.Chance(0.8) {
			m := s.mutateBytes(body)
			body, how = m.body, m.how
		}
		if len(body) >= 12 && binary.LittleEndian.Uint32(body[8:]) > 1<<20 && len(body) > 4096 {
			continue
		}
		impl := "err"
		func() {
			defer func() {
				if e := recover(); e != nil {
					impl = fmt.Sprintf("panic %v", e)
				}
			}()
			rles, err := dvid.ReadRLEs(bytes.NewReader(body))
			if err == nil {
				var parts []string
				for _, rl := range rles {
					p := rl.StartPt()
					parts = append(parts, fmt.Sprintf("%d,%d,%d,%d", p[0], p[1], p[2], rl.Length()))
				}
				impl = "ok -"
				if len(parts) > 0 {
					impl = "ok " + strings.Join(parts, ";")
				}
			}
		}()
		c.Eval("rle.read "+how, how != "valid")
		c.Count("parser sparse volume: " + strings.SplitN(impl, " ", 2)[0])
		if strings.HasPrefix(impl, "panic") {
			c.Report("O", "C20 parser-panics dvid.ReadRLEs", "reading a damaged sparse volume panics instead of returning an error", fmt.Sprintf("bytes (hex): %s\nmutation: %s\noutcome: %s\n", hx(body), how, impl))
			continue
		}
		c.AskCmp("C20-rle-reader", "rle.read "+hx(body), impl)
	}
}

// parseAndDecode: UnmarshalBinary, the consistency check an ingest applies, and the full decode; the outcome
// class is what the model predicts: "ok <fnv of labels>" | "err" | "panic <msg>"
func parseAndDecode(b []byte) (out string) {
	defer func() {
		if e := recover(); e != nil {
			out = fmt.Sprintf("panic %v", e)
		}
	}()
	var blk labels.Block
	if err := blk.UnmarshalBinary(b); err != nil {
		return "err"
	}
	if err := validateBlock(&blk); err != nil {
		return "err"
	}
	arr, _ := blk.MakeLabelVolume()
	ls := make([]uint64, len(arr)/8)
	for i := range ls {
		ls[i] = binary.LittleEndian.Uint64(arr[i*8:])
	}
	return fmt.Sprintf("ok %d %d", len(ls), fnvLabels(ls))
}
