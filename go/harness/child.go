package main

import (
	"fmt"
	"os"
)

// childMain: the harness binary re-executes itself as a child process for work that may take the
// process down (crash injection, parsers that can panic in cgo, restarts).  Modes are added per property.
var childModes = map[string]func(args []string){}

func childMain(mode string, args []string) {
	f, ok := childModes[mode]
	if !ok {
		fmt.Fprintf(os.Stderr, "child: unknown mode %q\n", mode)
		os.Exit(2)
	}
	f(args)
}
