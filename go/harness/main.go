package main

import (
	"flag"
	"fmt"
	"os"
	"runtime/debug"
	"sort"
	"time"
)

type runner func(c *Ctx)

var runners = map[string]runner{}

func register(prop string, r runner) { runners[prop] = r }

func main() {
	prop := flag.String("prop", "", "property id")
	tier := flag.String("tier", "quick", "quick|thorough")
	seed := flag.Uint64("seed", 1, "seed")
	driver := flag.String("driver", "", "path to the Lean model driver")
	out := flag.String("out", "", "result json")
	child := flag.String("child", "", "internal: run as child process in the given mode")
	flag.Parse()
	if *child != "" {
		childMain(*child, flag.Args())
		return
	}
	r, ok := runners[*prop]
	if !ok {
		var ks []string
		for k := range runners {
			ks = append(ks, k)
		}
		sort.Strings(ks)
		fmt.Fprintf(os.Stderr, "harness: no runner for %q (have %v)\n", *prop, ks)
		os.Exit(2)
	}
	var m *Model
	if *driver != "" {
		var err error
		m, err = StartModel(*driver)
		if err != nil {
			fmt.Fprintf(os.Stderr, "harness: cannot start model driver: %v\n", err)
			os.Exit(2)
		}
		defer m.Close()
	}
	c := NewCtx(*prop, *tier, *seed, m)
	t0 := time.Now()
	func() {
		defer func() {
			if e := recover(); e != nil {
				c.Report("H", "harness-panic", fmt.Sprintf("harness panic: %v", e), string(debug.Stack()))
			}
		}()
		r(c)
	}()
	res := c.Result(time.Since(t0).Seconds())
	if *out != "" {
		if err := writeJSON(*out, res); err != nil {
			fmt.Fprintln(os.Stderr, err)
			os.Exit(2)
		}
	}
	fmt.Fprintf(os.Stderr, "harness: %s %s seed=%d evals=%d distinct=%d findings=%d wall=%.1fs\n", *prop, *tier, *seed, res.Evaluations, res.Distinct, len(res.Findings), res.WallS)
}
