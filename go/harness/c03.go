package main

import (
	"encoding/json"
	"fmt"
	"os"
	"sort"
	"strings"
)

func init() { register("C03", runC03) }

// c03Sig classifies a difference by endpoint family so that distinct defects get distinct signatures.
func c03Sig(key string) string {
	k := key
	if i := strings.Index(k, ":"); i >= 0 {
		k = k[i+1:]
	}
	parts := strings.Split(k, "/")
	fam := parts[0]
	if len(parts) > 1 {
		ep := parts[1]
		if j := strings.IndexAny(ep, "?"); j >= 0 {
			ep = ep[:j]
		}
		fam += "/" + ep
	}
	return fam
}

// c03Counters: the id counters rebuilt at start-up answer like the ones they replace.  Each kind of allocation
// (repo, data instance, version) is in turn the last one before a restart; the counters of the restarted process
// must not be lower than those of the process it replaces, and the next allocation must not take over an
// existing repo, instance or version.
func c03Counters(c *Ctx) {
	counters := func(ch *Child) (map[string]int, string) {
		dump, _ := ch.Ask("DUMP")
		for _, ln := range strings.Split(dump, "|") {
			var v, rp, in int
			if n, _ := fmt.Sscanf(ln, "counters version=%d repo=%d instance=%d", &v, &rp, &in); n == 3 {
				return map[string]int{"version": v, "repo": rp, "instance": in}, ln
			}
		}
		return nil, ""
	}
	for _, last := range []string{"repo", "instance", "version"} {
		for _, how := range []string{"SHUTDOWN", "EXIT"} {
			func() {
				dir := scratchDir("c03c")
				defer os.RemoveAll(dir)
				ch, msg := StartChild(dir, nil)
				if ch == nil {
					c.Report("H", "C03 child-start", msg, "")
					return
				}
				defer func() { ch.Kill() }()
				hist := []string{}
				mk := func(alias string) string {
					resp, _ := ch.HTTP("POST", "repos", []byte(`{"alias":"`+alias+`","description":"d"}`))
					hist = append(hist, "POST repos "+alias+" -> "+resp.String())
					return jsonField(resp.Body, "root")
				}
				a := mk("a")
				ch.HTTP("POST", "repo/"+a+"/instance", []byte(`{"typename":"keyvalue","dataname":"kv"}`))
				ch.HTTP("POST", "node/"+a+"/kv/key/k", []byte("value of a"))
				var b string
				switch last {
				case "repo":
					b = mk("b")
				case "instance":
					ch.HTTP("POST", "repo/"+a+"/instance", []byte(`{"typename":"keyvalue","dataname":"kv2"}`))
					hist = append(hist, "new instance kv2")
				case "version":
					ch.HTTP("POST", "node/"+a+"/commit", []byte(`{"note":"c"}`))
					resp, _ := ch.HTTP("POST", "node/"+a+"/newversion", []byte(`{"note":"n"}`))
					hist = append(hist, "commit + newversion -> "+resp.String())
				}
				before, bl := counters(ch)
				ch.Stop(how)
				ch2, msg := StartChild(dir, nil)
				if ch2 == nil {
					c.Report("O", "C03 no-restart", "the server does not start again on its own stores", msg)
					return
				}
				ch = ch2
				hist = append(hist, "restart ("+how+")")
				after, al := counters(ch)
				c.Eval("counters "+last+" "+how, true)
				c.Count("counters." + last)
				for k, v := range before {
					if after[k] < v {
						c.Report("O", "C03 id-counter-lower-after-restart "+k, "an id counter rebuilt at start-up is lower than the one it replaces (ids would be issued twice)",
							fmt.Sprintf("before: %s\nafter:  %s\nhistory:\n  %s", bl, al, strings.Join(hist, "\n  ")))
						return
					}
				}
				// the next allocations must not take over what exists
				n := mk("n")
				for _, u := range []string{a, b, n} {
					if u == "" {
						continue
					}
					if resp, _ := ch.HTTP("GET", "repo/"+u+"/info", nil); !resp.OK() {
						c.Report("O", "C03 repo-lost-after-restart", "a repo that existed before the restart is gone once a new repo is created after it",
							fmt.Sprintf("GET repo/%s/info -> %s\nhistory:\n  %s", u, resp, strings.Join(hist, "\n  ")))
						return
					}
				}
				ch.HTTP("POST", "repo/"+n+"/instance", []byte(`{"typename":"keyvalue","dataname":"fresh"}`))
				if kr, _ := ch.HTTP("GET", "node/"+n+"/fresh/keys", nil); kr.OK() && strings.TrimSpace(string(kr.Body)) != "[]" {
					c.Report("O", "C03 instance-id-reused-after-restart", "a data instance created after the restart holds another instance's data",
						fmt.Sprintf("GET fresh/keys -> %s\nhistory:\n  %s", kr, strings.Join(hist, "\n  ")))
				}
			}()
		}
	}
}

func runC03(c *Ctx) {
	c.Rule = "generated histories across key-value, labelmap (ingest, merge, cleave, split-supervoxel), annotation (post, delete, move; synced to the labelmap) and neuronjson instances with commits, new versions and branches, on a real server process; at random points between operations the process is stopped idle — cleanly or by abrupt exit — and started again on the same stores, several times per history; every read endpoint at every version must answer byte-identically before and after. non-trivial = the history contains at least one restart after a labelmap/annotation/neuronjson mutation; distinct by history"
	nh, steps := 3, 30
	if c.Thorough {
		nh, steps = 25, 45
	}
	c03Directed(c)
	c03Counters(c)
	for h := 0; h < nh; h++ {
		r := c.Rng.Fork()
		dir := scratchDir("c03")
		ch, msg := StartChild(dir, nil)
		if ch == nil {
			c.Report("H", "C03 child-start", msg, "")
			os.RemoveAll(dir)
			return
		}
		w := NewWorld(c, ch, r, true, true, true)
		w.must("POST", "repo/"+w.root+"/instance", []byte(`{"typename":"roi","dataname":"roi1","BlockSize":"32,32,32"}`))
		rr := r.Fork() // ROI edits draw from their own stream: the world keeps its shape
		var lastZ [2]int
		roiOp := func() {
			o := w.open()
			if len(o) == 0 {
				return
			}
			n := o[rr.Intn(len(o))]
			k := rr.Intn(6)
			if k == 0 {
				w.must("DELETE", "node/"+n.uuid+"/roi1/roi", nil)
				w.log("roi delete at v%d", n.v)
				return
			}
			za, zb := lastZ[0], lastZ[1]
			if k < 3 || za == zb { // a new z range; otherwise re-post over the same z range with other spans
				za = rr.Intn(20) - 10
				zb = za + 1 + rr.Intn(4)
			}
			lastZ = [2]int{za, zb}
			var spans [][4]int
			for z := za; z <= zb; z++ {
				x := rr.Intn(6)
				spans = append(spans, [4]int{z, rr.Intn(4), x, x + rr.Intn(5)})
			}
			b, _ := json.Marshal(spans)
			w.must("POST", "node/"+n.uuid+"/roi1/roi", b)
			w.log("roi post %s at v%d", string(b), n.v)
		}
		snapshot := func() map[string]string {
			m := w.Snapshot()
			for _, n := range w.nodes {
				for _, path := range []string{"roi1/roi", "roi1/partition?batchsize=2", "roi1/info"} {
					resp, _ := ch.HTTP("GET", "node/"+n.uuid+"/"+path, nil)
					m[fmt.Sprintf("v%d:%s", n.v, path)] = fmt.Sprintf("%d %s", resp.Code, c03Canon(resp.Body))
				}
			}
			resp, _ := ch.HTTP("GET", "repo/"+w.root+"/info", nil)
			for k, v := range c03Settings(resp.Body) {
				m["settings:"+k] = v
			}
			return m
		}
		restarts := 0
		for s := 0; s < steps; s++ {
			if rr.Chance(0.25) {
				roiOp()
			} else {
				w.Step()
			}
			if ch.dead {
				c.Report("O", "C03 server-died", "the server process died during a well-formed request", strings.Join(w.hist, "\n"))
				break
			}
			if r.Chance(0.15) || s == steps-1 {
				before := snapshot()
				how := "SHUTDOWN"
				if r.Bool() {
					how = "EXIT"
				}
				ch.Stop(how)
				ch2, msg := StartChild(dir, nil)
				if ch2 == nil {
					c.Report("O", "C03 no-restart", "the server does not start again on its own stores", msg+"\n"+strings.Join(w.hist, "\n"))
					break
				}
				ch = ch2
				w.s = ch
				after := snapshot()
				w.log("restart (%s)", how)
				restarts++
				c.Count("restart." + how)
				diffs := diffSnap(before, after)
				bysig := map[string][]string{}
				for _, d := range diffs {
					key := strings.SplitN(d, "\n", 2)[0]
					sig := c03Sig(key)
					if strings.HasPrefix(key, "settings:") {
						// one signature per instance and differing setting, so that distinct defects stay distinct
						sig = "settings " + strings.TrimPrefix(key, "settings:") + " " + c03SettingsDiff(before[key], after[key])
					}
					bysig[sig] = append(bysig[sig], d)
				}
				for sig, ds := range bysig {
					if len(ds) > 4 {
						ds = ds[:4]
					}
					extra := ""
					if strings.HasPrefix(sig, "settings ") {
						if lg, err := os.ReadFile(dir + "/dvid.log"); err == nil {
							var ls []string
							for _, ln := range strings.Split(string(lg), "\n") {
								if strings.Contains(ln, "ranch") || strings.Contains(ln, "ERROR") || strings.Contains(ln, "CRITICAL") {
									ls = append(ls, ln)
								}
							}
							if len(ls) > 12 {
								ls = ls[len(ls)-12:]
							}
							extra = "\n\nserver log (branch / error lines, last 12):\n" + strings.Join(ls, "\n")
						}
					}
					c.Report("O", "C03 differs-after-restart "+sig, "a read endpoint answers differently after a restart ("+how+")",
						strings.Join(ds, "\n")+"\n\nhistory:\n  "+strings.Join(w.hist, "\n  ")+extra)
				}
				c.Evals += len(before)
			}
		}
		c.Eval(strings.Join(w.hist, ";"), restarts > 0)
		if !ch.dead {
			ch.Kill()
		}
		os.RemoveAll(dir)
	}
}

// c03SettingsDiff names the settings that differ between two c03Settings strings (top-level fields of the type's
// own settings, or the generic part)
func c03SettingsDiff(a, b string) string {
	split := func(s string) (string, map[string]interface{}) {
		i := strings.Index(s, " extended=")
		if i < 0 {
			return s, nil
		}
		var m map[string]interface{}
		json.Unmarshal([]byte(s[i+len(" extended="):]), &m)
		return s[:i], m
	}
	ga, ma := split(a)
	gb, mb := split(b)
	// the repo info of a label volume reports the extents of the master branch's leaf when it can resolve that
	// leaf, and the instance-wide ones otherwise: a flip of that source is one symptom, whatever fields follow
	if strings.Contains(ga, "extents-of-master-leaf=true") != strings.Contains(gb, "extents-of-master-leaf=true") {
		return "extents-source-flips"
	}
	var out []string
	if ga != gb {
		out = append(out, "generic")
	}
	keys := map[string]bool{}
	for k := range ma {
		keys[k] = true
	}
	for k := range mb {
		keys[k] = true
	}
	for k := range keys {
		x, _ := json.Marshal(ma[k])
		y, _ := json.Marshal(mb[k])
		if string(x) != string(y) {
			out = append(out, k)
		}
	}
	sort.Strings(out)
	return strings.Join(out, ",")
}

// c03Canon: JSON with sorted keys; an absent collection and an empty one read the same (null, {}, [])
func c03Canon(b []byte) string {
	var v interface{}
	if json.Unmarshal(b, &v) != nil {
		return string(b)
	}
	var norm func(x interface{}) interface{}
	norm = func(x interface{}) interface{} {
		switch t := x.(type) {
		case map[string]interface{}:
			if len(t) == 0 {
				return nil
			}
			for k, y := range t {
				t[k] = norm(y)
			}
			return t
		case []interface{}:
			if len(t) == 0 {
				return nil
			}
			for i := range t {
				t[i] = norm(t[i])
			}
			return t
		}
		return x
	}
	o, _ := json.Marshal(norm(v))
	return string(o)
}

// c03Settings: per data instance, the settings a client can see in the repo info (type, syncs, versioned flag,
// tags, and the type's own settings)
func c03Settings(repoInfo []byte) map[string]string {
	var ri struct {
		DataInstances map[string]struct {
			Base struct {
				TypeName    string
				Syncs       []string
				Versioned   bool
				Tags        map[string]string
				Compression string
				Checksum    string
			}
			Extended json.RawMessage
			Extents  json.RawMessage
		}
	}
	out := map[string]string{}
	if json.Unmarshal(repoInfo, &ri) != nil {
		out["unparsable"] = string(repoInfo)
		return out
	}
	for name, d := range ri.DataInstances {
		sy := append([]string{}, d.Base.Syncs...)
		sort.Strings(sy)
		tags, _ := json.Marshal(d.Base.Tags)
		if len(d.Base.Tags) == 0 {
			tags = []byte("{}")
		}
		out[name] = fmt.Sprintf("type=%s syncs=%v versioned=%v compression=%s checksum=%s tags=%s extents-of-master-leaf=%v extended=%s", d.Base.TypeName, sy, d.Base.Versioned, d.Base.Compression, d.Base.Checksum, tags, len(d.Extents) > 0, c03Canon(d.Extended))
	}
	return out
}

// c03Directed: a fixed script of the label operations whose start-up replay is most intricate (merge, then
// splits of supervoxels that belong to merged bodies, cleaves, overwrites), with two restarts in a row.
func c03Directed(c *Ctx) {
	r := c.Rng.Fork()
	dir := scratchDir("c03d")
	defer os.RemoveAll(dir)
	ch, msg := StartChild(dir, nil)
	if ch == nil {
		c.Report("H", "C03 child-start", msg, "")
		return
	}
	w := NewWorld(c, ch, r, true, true, true)
	n := w.nodes[0]
	script := []string{"ingest", "ingest", "ingest", "merge", "split", "split", "cleave", "split", "ann", "njfull", "njbare", "merge", "split", "child", "ingestm", "split", "merge", "cleave", "ann", "njbare2", "njnull"}
	for _, op := range script {
		switch op {
		case "ingest":
			w.lmIngest(n, false)
		case "ingestm":
			w.lmIngest(n, true)
		case "merge":
			w.lmMerge(n)
		case "split":
			w.lmSplitSV(n)
		case "cleave":
			w.lmCleave(n)
		case "ann":
			w.annPost(n)
		case "njfull", "njbare", "njbare2", "njnull":
			// neuron annotations on the master head (the version answered from memory and rebuilt at start-up):
			// a full one, one that holds nothing but its body id, one emptied again by nulls
			id, body := "1001", `{"bodyid":1001,"name":"n1","size":3}`
			switch op {
			case "njbare":
				id, body = "1002", `{"bodyid":1002}`
			case "njbare2":
				id, body = "1003", `{"bodyid":1003}`
			case "njnull":
				id, body = "1001", `{"bodyid":1001,"name":null,"size":null}`
			}
			w.must("POST", "node/"+n.uuid+"/nj/key/"+id+"?u=tester", []byte(body))
			w.log("nj post %s %s at v%d", id, body, n.v)
		case "child":
			if cn := w.child(n, false); cn != nil {
				n = cn
			}
		}
	}
	for k := 0; k < 2; k++ {
		before := w.Snapshot()
		how := []string{"EXIT", "SHUTDOWN"}[k]
		ch.Stop(how)
		ch2, msg := StartChild(dir, nil)
		if ch2 == nil {
			c.Report("O", "C03 no-restart", "the server does not start again on its own stores", msg+"\n"+strings.Join(w.hist, "\n"))
			return
		}
		ch = ch2
		w.s = ch
		after := w.Snapshot()
		w.log("restart (%s)", how)
		bysig := map[string][]string{}
		for _, d := range diffSnap(before, after) {
			key := strings.SplitN(d, "\n", 2)[0]
			bysig[c03Sig(key)] = append(bysig[c03Sig(key)], d)
		}
		for sig, ds := range bysig {
			if len(ds) > 4 {
				ds = ds[:4]
			}
			c.Report("O", "C03 differs-after-restart "+sig, "a read endpoint answers differently after a restart ("+how+")",
				strings.Join(ds, "\n")+"\n\nhistory:\n  "+strings.Join(w.hist, "\n  "))
		}
		c.Evals += len(before)
	}
	c.Eval("directed "+strings.Join(w.hist, ";"), true)
	ch.Kill()
}
