package main

import (
	"encoding/json"
	"fmt"
	"os"
	"sort"
	"strings"
	"time"
)

func init() { register("C13", runC13) }

// canonElem: one element in canonical text (tags and relationships sorted); withRels=false drops relationships
func canonElem(e annElem, withRels bool) string {
	tags := append([]string(nil), e.Tags...)
	sort.Strings(tags)
	var rels []string
	if withRels {
		for _, r := range e.Rels {
			rels = append(rels, fmt.Sprintf("%s>%d,%d,%d", r.Rel, r.To[0], r.To[1], r.To[2]))
		}
		sort.Strings(rels)
	}
	var props []string
	for k, v := range e.Prop {
		props = append(props, k+"="+v)
	}
	sort.Strings(props)
	return fmt.Sprintf("(%d,%d,%d) %s tags%v props%v rels%v", e.Pos[0], e.Pos[1], e.Pos[2], e.Kind, tags, props, rels)
}

func canonElems(es []annElem, withRels bool) string {
	var ss []string
	for _, e := range es {
		ss = append(ss, canonElem(e, withRels))
	}
	sort.Strings(ss)
	return strings.Join(ss, "; ")
}

// collectElems: every element in a response (a list, or a map from block coordinate to list)
func collectElems(body []byte) ([]annElem, error) {
	b := strings.TrimSpace(string(body))
	if b == "" || b == "null" {
		return nil, nil
	}
	if strings.HasPrefix(b, "[") {
		var es []annElem
		err := json.Unmarshal(body, &es)
		return es, err
	}
	var m map[string][]annElem
	if err := json.Unmarshal(body, &m); err != nil {
		return nil, err
	}
	var out []annElem
	for _, es := range m {
		out = append(out, es...)
	}
	return out, nil
}

// modelElem: the line-protocol token of an element for the Lean model
func modelElem(e annElem) string {
	tags := "~"
	if len(e.Tags) > 0 {
		tags = strings.Join(e.Tags, ";")
	}
	rels := "~"
	if len(e.Rels) > 0 {
		var rs []string
		for _, r := range e.Rels {
			rs = append(rs, fmt.Sprintf("%s>%d,%d,%d", r.Rel, r.To[0], r.To[1], r.To[2]))
		}
		rels = strings.Join(rs, ";")
	}
	return fmt.Sprintf("%d,%d,%d/%s/%s/%s/%s", e.Pos[0], e.Pos[1], e.Pos[2], e.Kind, tags, e.Prop["n"], rels)
}

// modelCanon: elements in the model's canonical output form
func modelCanon(es []annElem, withRels bool) string {
	if len(es) == 0 {
		return "-"
	}
	var out []string
	for _, e := range es {
		tags := append([]string(nil), e.Tags...)
		sort.Strings(tags)
		var rels []string
		if withRels {
			for _, r := range e.Rels {
				rels = append(rels, fmt.Sprintf("%s>%d,%d,%d", r.Rel, r.To[0], r.To[1], r.To[2]))
			}
			sort.Strings(rels)
		}
		out = append(out, fmt.Sprintf("(%d,%d,%d)%s[%s]%s[%s]", e.Pos[0], e.Pos[1], e.Pos[2], e.Kind, strings.Join(tags, ","), e.Prop["n"], strings.Join(rels, ",")))
	}
	sort.Strings(out)
	return strings.Join(out, ";")
}

// cmpModelViews: the server's all-elements and tag answers against the Lean model's state (X)
func cmpModelViews(c *Ctx, uuid, inst string, hist func() string) {
	get := func(path string) ([]annElem, bool) {
		r := Get("node/" + uuid + "/" + inst + "/" + path)
		if !r.OK() {
			return nil, false
		}
		es, err := collectElems(r.Body)
		return es, err == nil
	}
	if es, ok := get("all-elements"); ok {
		c.Cmp("C13-all-elements", "ann.all after\n"+hist(), "ok "+modelCanon(es, true), c.Model.Ask("ann.all"))
	}
	for _, t := range annTags {
		if es, ok := get("tag/" + t); ok {
			c.Cmp("C13-tag", "ann.tag "+t+" after\n"+hist(), "ok "+modelCanon(es, false), c.Model.Ask("ann.tag "+t))
		}
	}
}

type annView struct {
	c    *Ctx
	uuid string
	inst string
	hist func() string
}

func (v annView) check(name, path string, want []annElem, withRels bool) {
	r := Get("node/" + v.uuid + "/" + v.inst + "/" + path)
	if !r.OK() {
		v.c.Report("O", "C13 view-fails "+name, "a view request fails: "+r.String(), "GET "+path+"\n"+v.hist())
		return
	}
	got, err := collectElems(r.Body)
	if err != nil {
		v.c.Report("O", "C13 view-unparsable "+name, err.Error(), "GET "+path+"\n"+string(r.Body)+"\n"+v.hist())
		return
	}
	a, b := canonElems(got, withRels), canonElems(want, withRels)
	v.c.Eval(v.inst+" "+path+" "+b, len(want) > 0)
	if a != b {
		v.c.Report("O", "C13 view-differs "+name, "a view does not return exactly the elements of the element set it should",
			fmt.Sprintf("GET node/%s/%s/%s\ngot:  %s\nwant: %s\nhistory:\n%s\n", v.uuid, v.inst, path, a, b, v.hist()))
	}
}

func chunkOf(p [3]int32, bs int32) [3]int32 {
	f := func(x int32) int32 {
		if x >= 0 {
			return x / bs
		}
		return -((-x + bs - 1) / bs)
	}
	return [3]int32{f(p[0]), f(p[1]), f(p[2])}
}

// checkAnnViews: all views of instance inst at version uuid against the expected element set
func checkAnnViews(c *Ctx, r *Rng, uuid, inst string, set map[[3]int32]annElem, bs int32, hist func() string) {
	v := annView{c, uuid, inst, hist}
	var all []annElem
	for _, e := range set {
		all = append(all, e)
	}
	v.check("all-elements", "all-elements", all, true)
	for _, t := range annTags {
		var want []annElem
		for _, e := range all {
			for _, x := range e.Tags {
				if x == t {
					want = append(want, e)
					break
				}
			}
		}
		v.check("tag", "tag/"+t+"?relationships=true", want, true)
		v.check("tag", "tag/"+t, want, false)
	}
	// spatial queries: a few boxes incl. negative offsets, block-aligned and not
	for k := 0; k < 4; k++ {
		sz := [3]int32{int32(1 + r.Intn(150)), int32(1 + r.Intn(150)), int32(1 + r.Intn(150))}
		off := [3]int32{int32(r.Intn(160) - 90), int32(r.Intn(160) - 90), int32(r.Intn(160) - 90)}
		if k == 0 {
			sz, off = [3]int32{400, 400, 400}, [3]int32{-200, -200, -200}
		}
		if k == 1 {
			sz, off = [3]int32{bs, bs, bs}, [3]int32{-bs, 0, -bs}
		}
		var want, wantBlocks []annElem
		lo := chunkOf(off, bs)
		hi := chunkOf([3]int32{off[0] + sz[0] - 1, off[1] + sz[1] - 1, off[2] + sz[2] - 1}, bs)
		for _, e := range all {
			in := true
			inB := true
			cp := chunkOf(e.Pos, bs)
			for d := 0; d < 3; d++ {
				if e.Pos[d] < off[d] || e.Pos[d] >= off[d]+sz[d] {
					in = false
				}
				if cp[d] < lo[d] || cp[d] > hi[d] {
					inB = false
				}
			}
			if in {
				want = append(want, e)
			}
			if inB {
				wantBlocks = append(wantBlocks, e)
			}
		}
		v.check("elements", fmt.Sprintf("elements/%d_%d_%d/%d_%d_%d", sz[0], sz[1], sz[2], off[0], off[1], off[2]), want, true)
		v.check("blocks", fmt.Sprintf("blocks/%d_%d_%d/%d_%d_%d", sz[0], sz[1], sz[2], off[0], off[1], off[2]), wantBlocks, true)
	}
	// mutual references stay mutual and point at existing elements
	for _, e := range all {
		for _, rl := range e.Rels {
			if _, ok := set[rl.To]; !ok {
				c.Report("H", "C13 oracle-dangling", "the oracle's own element set has a dangling relationship", hist())
			}
		}
	}
}

func waitReload(uuid, inst string) {
	// reload runs in the background; poll until a write is accepted again and the views settle
	time.Sleep(150 * time.Millisecond)
	for i := 0; i < 100; i++ {
		r := Get("node/" + uuid + "/" + inst + "/tag/zzz-not-a-tag")
		if r.OK() {
			break
		}
		time.Sleep(50 * time.Millisecond)
	}
	time.Sleep(200 * time.Millisecond)
}

// c13BulkReload: an instance holding around a thousand tag references spread over several blocks, every tag used
// in every block; the denormalised views are rebuilt by each kind of reload (in memory, in memory with checking,
// low memory) and must afterwards still be views of the stored element set.
func c13BulkReload(c *Ctx) {
	r := c.Rng.Fork()
	modes := []string{"?inmemory=false", "", "?check=true", "?inmemory=false&check=true"}
	for ep, perBlock := range []int{140, 95} {
		func() {
			OpenServer()
			defer CloseServer()
			root := NewRepo()
			NewInstance(root, "annotation", "pts", nil)
			const bs = 64
			set := map[[3]int32]annElem{}
			var hl []string
			hist := func() string { return strings.Join(hl, "\n") }
			nblocks := 5 + r.Intn(3)
			refs := 0
			for b := 0; b < nblocks; b++ {
				bc := [3]int32{int32(r.Intn(3) - 1), int32(r.Intn(3) - 1), int32(b - 2)}
				var els []annElem
				for i := 0; i < perBlock+r.Intn(40); i++ {
					pos := [3]int32{bc[0]*bs + int32(r.Intn(bs)), bc[1]*bs + int32(r.Intn(bs)), bc[2]*bs + int32(r.Intn(bs))}
					if _, occ := set[pos]; occ {
						continue
					}
					e := annElem{Pos: pos, Kind: "PostSyn", Tags: []string{annTags[r.Intn(3)]}, Prop: map[string]string{"n": fmt.Sprint(b)}, Rels: []annRel{}}
					if r.Chance(0.5) {
						if t := annTags[r.Intn(3)]; t != e.Tags[0] {
							e.Tags = append(e.Tags, t)
						}
					}
					refs += len(e.Tags)
					set[pos] = e
					els = append(els, e)
				}
				body, _ := json.Marshal(els)
				rr := Post("node/"+root+"/pts/elements", body)
				hl = append(hl, fmt.Sprintf("POST elements: %d tagged elements in block %v -> %d", len(els), bc, rr.Code))
			}
			hl = append(hl, fmt.Sprintf("(%d elements, %d tag references in %d blocks)", len(set), refs, nblocks))
			checkAnnViews(c, r, root, "pts", set, bs, hist)
			for k := 0; k < 2; k++ {
				q := modes[(2*ep+k)%len(modes)]
				if k == 0 {
					q = modes[0]
				}
				rr := Post("node/"+root+"/pts/reload"+q, nil)
				hl = append(hl, fmt.Sprintf("POST reload%s -> %d", q, rr.Code))
				waitReload(root, "pts")
				c.Count("bulk reload" + q)
				checkAnnViews(c, r, root, "pts", set, bs, hist)
			}
		}()
	}
}

func runC13(c *Ctx) {
	defer c13BulkReload(c)
	c.Rule = "a case is one view (all-elements, tag, spatial box, blocks, per-body list, per-body count) read after synchronisation settled and compared with the same view computed from the expected element set, after a generated history of element posts (new, overwriting, changing tags/kinds, mutual relationships), deletions, moves (within a block, across blocks, onto another body), block ingest + reload, and merges, cleaves, supervoxel splits and voxel edits of the synced label volume; non-trivial when the expected view is non-empty"
	quietLogs()
	sessions, steps := 2, 45
	if c.Thorough {
		sessions, steps = 8, 140
	}
	// ---- A: annotation synced with a labelmap, labelsz synced with the annotation
	for si := 0; si < sessions; si++ {
		func() {
			OpenServer()
			defer CloseServer()
			r := c.Rng.Fork()
			cr := r.Fork() // checks draw from their own stream so that checking more often does not change the history
			w := NewWorld(c, inproc{}, r, true, true, false)
			NewInstance(w.root, "labelsz", "lsz", nil)
			w.must("POST", "node/"+w.root+"/lsz/sync", []byte(`{"sync":"ann"}`))
			hist := func() string { return strings.Join(w.hist, "\n") }
			checkNode := func(n *wnode) {
				w.settle()
				time.Sleep(30 * time.Millisecond)
				checkAnnViews(c, cr, n.uuid, "ann", n.ann, lmB, hist)
				// per-body views and counts
				bodyOf := func(p [3]int32) uint64 {
					if n.lm == nil {
						return 0
					}
					sv := n.lm.vox[int(p[2])*lmN+int(p[1])][p[0]]
					if sv == 0 {
						return 0
					}
					return n.lm.body(sv)
				}
				byBody := map[uint64][]annElem{}
				for _, e := range n.ann {
					if b := bodyOf(e.Pos); b != 0 {
						byBody[b] = append(byBody[b], e)
					}
				}
				bodies := map[uint64]bool{}
				for b := range w.lmBodies(n) {
					bodies[b] = true
				}
				for b := range byBody {
					bodies[b] = true
				}
				v := annView{c, n.uuid, "ann", hist}
				for b := range bodies {
					v.check("label", fmt.Sprintf("label/%d?relationships=true", b), byBody[b], true)
					counts := map[string]int{}
					for _, e := range byBody[b] {
						counts[e.Kind]++
						if e.Kind == "PostSyn" || e.Kind == "PreSyn" {
							counts["AllSyn"]++
						}
					}
					for _, typ := range []string{"PostSyn", "PreSyn", "Note", "AllSyn"} {
						rr := Get(fmt.Sprintf("node/%s/lsz/count/%d/%s", n.uuid, b, typ))
						got := jsonField(rr.Body, typ)
						c.Eval(fmt.Sprintf("lsz %d %s %d", b, typ, counts[typ]), counts[typ] > 0)
						if !rr.OK() || got != fmt.Sprint(counts[typ]) {
							c.Report("O", "C13 count-differs "+typ, "a synced per-body annotation count differs from the count computed from the elements",
								fmt.Sprintf("GET node/%s/lsz/count/%d/%s -> %s, expected %d\nhistory:\n%s\n", n.uuid, b, typ, rr.String(), counts[typ], hist()))
						}
					}
				}
			}
			for i := 0; i < steps; i++ {
				w.Step()
				if os.Getenv("VERIF_C13_EVERY") != "" {
					for _, n := range w.open() {
						before := len(c.Findings)
						checkNode(n)
						if len(c.Findings) > before {
							fmt.Fprintf(os.Stderr, "first finding after step %d: %s\n", i, w.hist[len(w.hist)-1])
							return
						}
					}
				} else if i%9 == 8 {
					if o := w.open(); len(o) > 0 {
						checkNode(o[cr.Intn(len(o))])
					}
				}
			}
			// directed episode: a cleave that takes every annotated supervoxel of a body (its per-body list must
			// become empty), then a merge back
			if o := w.open(); len(o) > 0 {
				n := o[len(o)-1]
				c13CleaveAllAnnotated(c, w, n)
				checkNode(n)
				c13MoveBackground(c, w, n, checkNode)
			}
			for _, n := range w.nodes {
				checkNode(n)
			}
			// rebuild of the denormalisations from the block store must give the same views
			if o := w.open(); len(o) > 0 {
				n := o[0]
				w.must("POST", "node/"+n.uuid+"/ann/reload", nil)
				w.log("ann reload at v%d", n.v)
				waitReload(n.uuid, "ann")
				checkNode(n)
			}
		}()
	}
	// ---- B: unsynced annotation over negative coordinates and block borders; block ingest + reload
	for si := 0; si < sessions; si++ {
		func() {
			OpenServer()
			defer CloseServer()
			r := c.Rng.Fork()
			root := NewRepo()
			NewInstance(root, "annotation", "pts", nil)
			c.Model.Ask("ann.reset")
			const bs = 64
			set := map[[3]int32]annElem{}
			var hl []string
			hist := func() string { return strings.Join(hl, "\n") }
			genPos := func() [3]int32 {
				g := func() int32 {
					switch r.Intn(4) {
					case 0:
						return []int32{-65, -64, -63, -1, 0, 1, 63, 64, 65, 127, 128, -128, -129}[r.Intn(13)]
					default:
						return int32(r.Intn(300) - 150)
					}
				}
				return [3]int32{g(), g(), g()}
			}
			keysSorted := func() [][3]int32 {
				var ps [][3]int32
				for p := range set {
					ps = append(ps, p)
				}
				sort.Slice(ps, func(i, j int) bool { return fmt.Sprint(ps[i]) < fmt.Sprint(ps[j]) })
				return ps
			}
			for i := 0; i < steps; i++ {
				switch k := r.Intn(10); {
				case k < 5:
					n := 1 + r.Intn(3)
					var els []annElem
					used := map[[3]int32]bool{}
					for j := 0; j < n; j++ {
						pos := genPos()
						if r.Chance(0.3) && len(set) > 0 {
							var cand [][3]int32
							for _, p := range keysSorted() {
								if len(set[p].Rels) == 0 && !annReferenced(set, p) {
									cand = append(cand, p)
								}
							}
							if len(cand) > 0 {
								pos = cand[r.Intn(len(cand))]
							}
						}
						if used[pos] {
							continue
						}
						used[pos] = true
						e := annElem{Pos: pos, Kind: []string{"PostSyn", "PreSyn", "Note", "Gap"}[r.Intn(4)], Tags: []string{}, Prop: map[string]string{"n": fmt.Sprint(r.Intn(100))}, Rels: []annRel{}}
						for _, t := range annTags {
							if r.Chance(0.4) {
								e.Tags = append(e.Tags, t)
							}
						}
						els = append(els, e)
					}
					if len(els) >= 2 && r.Chance(0.5) {
						els[0].Rels = []annRel{{"PostSynTo", els[1].Pos}}
						els[1].Rels = []annRel{{"PreSynTo", els[0].Pos}}
						if els[0].Prop["n"] < "4" { // two relationships between the same pair, a third partner after them or not
							els[0].Rels = append(els[0].Rels, annRel{"GroupedWith", els[1].Pos})
							els[1].Rels = append(els[1].Rels, annRel{"GroupedWith", els[0].Pos})
							if len(els) >= 3 {
								els[0].Rels = append(els[0].Rels, annRel{"GroupedWith", els[2].Pos})
								els[2].Rels = []annRel{{"GroupedWith", els[0].Pos}}
							}
							c.Count("post: two relationships to one partner")
						}
					}
					body, _ := json.Marshal(els)
					rr := Post("node/"+root+"/pts/elements", body)
					hl = append(hl, fmt.Sprintf("POST elements %s -> %d", string(body), rr.Code))
					if rr.OK() {
						var toks []string
						for _, e := range els {
							toks = append(toks, modelElem(e))
						}
						c.Model.Ask("ann.store " + strings.Join(toks, "+"))
						for _, e := range els {
							// an overwritten element's old mutual references are the client's to fix: drop dangling ones from the oracle
							set[e.Pos] = e
						}
						for q, e := range set {
							var keep []annRel
							for _, rl := range e.Rels {
								if _, ok := set[rl.To]; ok {
									keep = append(keep, rl)
								}
							}
							if keep == nil {
								keep = []annRel{}
							}
							if len(keep) != len(e.Rels) {
								c.Count("post-left-dangling-rel-skipped")
							}
							_ = q
						}
					}
				case k < 7:
					if len(set) == 0 {
						continue
					}
					ps := keysSorted()
					p := ps[r.Intn(len(ps))]
					rr := Delete(fmt.Sprintf("node/%s/pts/element/%d_%d_%d", root, p[0], p[1], p[2]))
					hl = append(hl, fmt.Sprintf("DELETE element %v -> %d", p, rr.Code))
					if rr.OK() {
						c.Model.Ask(fmt.Sprintf("ann.delete %d,%d,%d", p[0], p[1], p[2]))
						old := set[p]
						delete(set, p)
						// the deleted element's partners lose their reference to it
						for _, rl := range old.Rels {
							if q, ok := set[rl.To]; ok {
								var keep []annRel
								for _, x := range q.Rels {
									if x.To != p {
										keep = append(keep, x)
									}
								}
								if keep == nil {
									keep = []annRel{}
								}
								q.Rels = keep
								set[rl.To] = q
							}
						}
					}
				default:
					if len(set) == 0 {
						continue
					}
					ps := keysSorted()
					p := ps[r.Intn(len(ps))]
					to := genPos()
					if r.Chance(0.4) {
						cp := chunkOf(p, bs)
						to = [3]int32{cp[0]*bs + int32(r.Intn(bs)), cp[1]*bs + int32(r.Intn(bs)), cp[2]*bs + int32(r.Intn(bs))}
					}
					if _, occ := set[to]; occ || to == p {
						continue
					}
					rr := Post(fmt.Sprintf("node/%s/pts/move/%d_%d_%d/%d_%d_%d", root, p[0], p[1], p[2], to[0], to[1], to[2]), nil)
					hl = append(hl, fmt.Sprintf("POST move %v -> %v : %d", p, to, rr.Code))
					if rr.OK() {
						c.Model.Ask(fmt.Sprintf("ann.move %d,%d,%d %d,%d,%d", p[0], p[1], p[2], to[0], to[1], to[2]))
						e := set[p]
						delete(set, p)
						e.Pos = to
						set[to] = e
						for _, rl := range e.Rels {
							if q, ok := set[rl.To]; ok {
								for j := range q.Rels {
									if q.Rels[j].To == p {
										q.Rels[j].To = to
									}
								}
								set[rl.To] = q
							}
						}
					}
				}
				// keep the oracle free of dangling one-sided references (not covered by the property)
				for q, e := range set {
					var keep []annRel
					for _, rl := range e.Rels {
						if _, ok := set[rl.To]; ok {
							keep = append(keep, rl)
						}
					}
					if keep == nil {
						keep = []annRel{}
					}
					e.Rels = keep
					set[q] = e
				}
				cmpModelViews(c, root, "pts", hist)
				if i%6 == 5 {
					checkAnnViewsLoose(c, r, root, "pts", set, bs, hist)
				}
			}
			checkAnnViewsLoose(c, r, root, "pts", set, bs, hist)
			// block-level ingest then reload
			ing := map[string][]annElem{}
			for j := 0; j < 4; j++ {
				pos := genPos()
				if _, occ := set[pos]; occ {
					continue
				}
				e := annElem{Pos: pos, Kind: "PostSyn", Tags: []string{annTags[r.Intn(3)]}, Prop: map[string]string{"n": "ingest"}, Rels: []annRel{}}
				cp := chunkOf(pos, bs)
				key := fmt.Sprintf("%d,%d,%d", cp[0], cp[1], cp[2])
				// a block post replaces the block's list: send the block's existing elements too
				if _, ok := ing[key]; !ok {
					for _, x := range set {
						if chunkOf(x.Pos, bs) == cp {
							ing[key] = append(ing[key], x)
						}
					}
				}
				ing[key] = append(ing[key], e)
				set[pos] = e
			}
			if len(ing) > 0 {
				body, _ := json.Marshal(ing)
				rr := Post("node/"+root+"/pts/blocks", body)
				hl = append(hl, fmt.Sprintf("POST blocks %s -> %d", string(body), rr.Code))
				Post("node/"+root+"/pts/reload", nil)
				hl = append(hl, "POST reload")
				waitReload(root, "pts")
				checkAnnViewsLoose(c, r, root, "pts", set, bs, hist)
			}
		}()
	}
}

// checkAnnViewsLoose: like checkAnnViews, but relationships that the oracle dropped as dangling (left behind by an
// overwrite, which the property does not cover) are ignored by comparing without relationships where needed.
// c13CleaveAllAnnotated: make one supervoxel of a multi-supervoxel body the only annotated one, cleave it.
// c13MoveBackground: an element is moved from a voxel of a body onto a background voxel (label 0) and from a
// background voxel onto a body; the per-body lists and the synced per-body counts must follow both times.
func c13MoveBackground(c *Ctx, w *World, n *wnode, check func(*wnode)) {
	if n.lm == nil {
		return
	}
	var onBody, onBg [][3]int32
	for z := 0; z < lmN && (len(onBody) < 40 || len(onBg) < 40); z += 3 {
		for y := 0; y < lmN; y += 5 {
			for x := 0; x < lmN; x += 7 {
				p := [3]int32{int32(x), int32(y), int32(z)}
				if _, occ := n.ann[p]; occ {
					continue
				}
				if n.lm.vox[z*lmN+y][x] != 0 {
					onBody = append(onBody, p)
				} else {
					onBg = append(onBg, p)
				}
			}
		}
	}
	if len(onBody) < 2 || len(onBg) < 2 {
		return
	}
	a, b := onBody[w.r.Intn(len(onBody))], onBg[w.r.Intn(len(onBg))]
	els := []annElem{
		{Pos: a, Kind: "PreSyn", Tags: []string{}, Prop: map[string]string{"n": "onbody"}, Rels: []annRel{}},
		{Pos: b, Kind: "PostSyn", Tags: []string{}, Prop: map[string]string{"n": "onbackground"}, Rels: []annRel{}},
	}
	body, _ := json.Marshal(els)
	w.must("POST", "node/"+n.uuid+"/ann/elements", body)
	for _, e := range els {
		n.ann[e.Pos] = e
	}
	w.log("episode: ann post %s at v%d (one element on a body, one on background)", string(body), n.v)
	w.settle()
	check(n)
	move := func(from, to [3]int32) {
		r := w.must("POST", fmt.Sprintf("node/%s/ann/move/%d_%d_%d/%d_%d_%d", n.uuid, from[0], from[1], from[2], to[0], to[1], to[2]), nil)
		if !r.OK() {
			return
		}
		e := n.ann[from]
		delete(n.ann, from)
		e.Pos = to
		n.ann[to] = e
		w.log("episode: ann move %v -> %v at v%d", from, to, n.v)
		w.settle()
		check(n)
	}
	var a2, b2 [3]int32
	for _, p := range onBg {
		if p != b {
			b2 = p
			break
		}
	}
	for _, p := range onBody {
		if p != a {
			a2 = p
			break
		}
	}
	move(a, b2) // body -> background
	move(b, a2) // background -> body
	c.Count("episode move body<->background")
}

func c13CleaveAllAnnotated(c *Ctx, w *World, n *wnode) {
	if n.lm == nil {
		return
	}
	bodies := w.lmBodies(n)
	var target uint64
	for b, svs := range bodies {
		if len(svs) >= 2 && (target == 0 || b < target) {
			target = b
		}
	}
	if target == 0 {
		if !w.lmMerge(n) {
			return
		}
		bodies = w.lmBodies(n)
		for b, svs := range bodies {
			if len(svs) >= 2 && (target == 0 || b < target) {
				target = b
			}
		}
		if target == 0 {
			return
		}
	}
	sv := bodies[target][len(bodies[target])-1]
	svAt := func(p [3]int32) uint64 { return n.lm.vox[int(p[2])*lmN+int(p[1])][p[0]] }
	inVol := func(p [3]int32) bool { return p[0] >= 0 && p[1] >= 0 && p[2] >= 0 && p[0] < lmN && p[1] < lmN && p[2] < lmN }
	// remove the annotations that sit on the other supervoxels of the body
	var del [][3]int32
	for p := range n.ann {
		if inVol(p) && n.lm.body(svAt(p)) == target && svAt(p) != sv {
			del = append(del, p)
		}
	}
	sort.Slice(del, func(i, j int) bool { return fmt.Sprint(del[i]) < fmt.Sprint(del[j]) })
	for _, p := range del {
		w.must("DELETE", fmt.Sprintf("node/%s/ann/element/%d_%d_%d", n.uuid, p[0], p[1], p[2]), nil)
		delete(n.ann, p)
		for q, e := range n.ann {
			keep := []annRel{}
			for _, rl := range e.Rels {
				if rl.To != p {
					keep = append(keep, rl)
				}
			}
			e.Rels = keep
			n.ann[q] = e
		}
		w.log("ann delete %v at v%d (episode)", p, n.v)
	}
	// two annotations on voxels of the chosen supervoxel
	var els []annElem
	for z := 0; z < lmN && len(els) < 2; z++ {
		for y := 0; y < lmN && len(els) < 2; y += 3 {
			for x := 0; x < lmN && len(els) < 2; x += 5 {
				p := [3]int32{int32(x), int32(y), int32(z)}
				if _, taken := n.ann[p]; !taken && svAt(p) == sv {
					els = append(els, annElem{Pos: p, Kind: "PostSyn", Tags: []string{annTags[0]}, Prop: map[string]string{"n": "e"}, Rels: []annRel{}})
				}
			}
		}
	}
	if len(els) == 0 {
		return
	}
	body, _ := json.Marshal(els)
	w.must("POST", "node/"+n.uuid+"/ann/elements", body)
	for _, e := range els {
		n.ann[e.Pos] = e
	}
	w.log("ann post %s at v%d (episode: the only annotated supervoxel of body %d is %d)", string(body), n.v, target, sv)
	w.settle()
	cb, _ := json.Marshal([]uint64{sv})
	r := w.must("POST", fmt.Sprintf("node/%s/lm/cleave/%d", n.uuid, target), cb)
	if !r.OK() {
		return
	}
	var out struct{ CleavedLabel uint64 }
	json.Unmarshal(r.Body, &out)
	n.lm.m[sv] = out.CleavedLabel
	if out.CleavedLabel >= w.nextSV {
		w.nextSV = out.CleavedLabel + 1
	}
	w.log("lm cleave body %d svs [%d] -> %d at v%d (episode: takes every annotated supervoxel)", target, sv, out.CleavedLabel, n.v)
	w.settle()
	c.Count("episode: cleave takes every annotated supervoxel")
}

func checkAnnViewsLoose(c *Ctx, r *Rng, uuid, inst string, set map[[3]int32]annElem, bs int32, hist func() string) {
	checkAnnViews(c, r, uuid, inst, set, bs, hist)
}
