// Correspondence harness: runs the real implementation (built from /repo's working tree, tags
// "badger verif") and the Lean model driver on the same operation lines, diffs the outputs (signal X) and
// evaluates the property oracle on the implementation's outputs (signal O).
package main

import (
	"bufio"
	"crypto/sha256"
	"encoding/hex"
	"encoding/json"
	"fmt"
	"io"
	"os"
	"os/exec"
	"sort"
	"strings"
	"sync"
	"time"
)

// ---- deterministic PRNG (SplitMix64); every random choice derives from VERIF_SEED -------------

type Rng struct{ s uint64 }

func (r *Rng) U64() uint64 {
	r.s += 0x9E3779B97F4A7C15
	z := r.s
	z = (z ^ (z >> 30)) * 0xBF58476D1CE4E5B9
	z = (z ^ (z >> 27)) * 0x94D049BB133111EB
	return z ^ (z >> 31)
}
func (r *Rng) Intn(n int) int {
	if n <= 0 {
		return 0
	}
	return int(r.U64() % uint64(n))
}
func (r *Rng) Bool() bool          { return r.U64()&1 == 1 }
func (r *Rng) Chance(p float64) bool { return float64(r.U64()>>11)/float64(1<<53) < p }
func (r *Rng) Bytes(n int) []byte {
	b := make([]byte, n)
	for i := range b {
		b[i] = byte(r.U64())
	}
	return b
}
func (r *Rng) Fork() *Rng { return &Rng{s: r.U64()} }

// ---- model driver process -----------------------------------------------------------------------

type Model struct {
	cmd *exec.Cmd
	in  io.WriteCloser
	out *bufio.Reader
	mu  sync.Mutex
	n   int
}

func StartModel(path string) (*Model, error) {
	cmd := exec.Command(path)
	in, err := cmd.StdinPipe()
	if err != nil {
		return nil, err
	}
	out, err := cmd.StdoutPipe()
	if err != nil {
		return nil, err
	}
	cmd.Stderr = os.Stderr
	if err := cmd.Start(); err != nil {
		return nil, err
	}
	return &Model{cmd: cmd, in: in, out: bufio.NewReaderSize(out, 1<<20)}, nil
}

// Ask sends one op line and returns the model's one result line.
func (m *Model) Ask(line string) string {
	m.mu.Lock()
	defer m.mu.Unlock()
	if strings.ContainsAny(line, "\n\r") {
		return "harness-error newline-in-op"
	}
	if _, err := io.WriteString(m.in, line+"\n"); err != nil {
		return "harness-error model-write " + err.Error()
	}
	s, err := m.out.ReadString('\n')
	if err != nil {
		return "harness-error model-read " + err.Error()
	}
	m.n++
	return strings.TrimRight(s, "\r\n")
}

func (m *Model) Close() {
	m.in.Close()
	done := make(chan struct{})
	go func() { m.cmd.Wait(); close(done) }()
	select {
	case <-done:
	case <-time.After(5 * time.Second):
		m.cmd.Process.Kill()
	}
}

// ---- run context, statistics, findings ----------------------------------------------------------

type Finding struct {
	Kind   string `json:"kind"`   // "O" oracle failed on the implementation; "X" model/impl disagree; "H" harness error
	Sig    string `json:"sig"`    // stable signature: call site + minimal shape
	What   string `json:"what"`   // one-line description
	Replay string `json:"replay"` // replay text (ops, expected, actual)
}

type Ctx struct {
	Prop   string
	Tier   string
	Seed   uint64
	Rng    *Rng
	Model  *Model
	Thorough bool

	mu        sync.Mutex
	Evals     int
	distinct  map[[8]byte]struct{}
	Dist      map[string]int
	Samples   []string
	Findings  []Finding
	findSeen  map[string]bool
	Rule      string
	Notes     []string
	Extra     map[string]interface{}
}

func NewCtx(prop, tier string, seed uint64, m *Model) *Ctx {
	return &Ctx{Prop: prop, Tier: tier, Seed: seed, Rng: (&Rng{s: (seed ^ 0x5DEECE66D) * 0xD6E8FEB86659FD93}).Fork(), Model: m,
		Thorough: tier == "thorough",
		distinct: map[[8]byte]struct{}{}, Dist: map[string]int{}, findSeen: map[string]bool{}, Extra: map[string]interface{}{}}
}

// Eval records one evaluated case.  `canon` is its canonical text (for distinctness); nontrivial says
// whether it exercised a non-trivial branch by the property's stated rule.
func (c *Ctx) Eval(canon string, nontrivial bool) {
	c.mu.Lock()
	defer c.mu.Unlock()
	c.Evals++
	if nontrivial {
		h := sha256.Sum256([]byte(canon))
		var k [8]byte
		copy(k[:], h[:8])
		c.distinct[k] = struct{}{}
	}
	if len(c.Samples) < 6 && (c.Evals == 1 || c.Evals%97 == 0 || nontrivial && len(c.Samples) < 3) {
		s := canon
		if len(s) > 400 {
			s = s[:400] + "…"
		}
		c.Samples = append(c.Samples, s)
	}
}

func (c *Ctx) Count(key string) { c.mu.Lock(); c.Dist[key]++; c.mu.Unlock() }
func (c *Ctx) CountN(key string, n int) { c.mu.Lock(); c.Dist[key] += n; c.mu.Unlock() }

func (c *Ctx) Report(kind, sig, what, replay string) {
	c.mu.Lock()
	defer c.mu.Unlock()
	key := kind + "|" + sig
	if c.findSeen[key] {
		return
	}
	c.findSeen[key] = true
	c.Findings = append(c.Findings, Finding{Kind: kind, Sig: sig, What: what, Replay: replay})
}

// Cmp compares implementation and model output for one op (signal X).
func (c *Ctx) Cmp(site, op, impl, model string) bool {
	if impl == model {
		return true
	}
	c.Report("X", "corr-"+site, fmt.Sprintf("model and implementation disagree at %s", site),
		fmt.Sprintf("correspondence: %s\nop: %s\nimpl:  %s\nmodel: %s\nseed: %d\n", site, op, impl, model, c.Seed))
	return false
}

// AskCmp sends op to the model and compares with the implementation's canonical output.
func (c *Ctx) AskCmp(site, op, impl string) bool {
	return c.Cmp(site, op, impl, c.Model.Ask(op))
}

type Result struct {
	Prop        string                 `json:"property_id"`
	Tier        string                 `json:"tier"`
	Seed        uint64                 `json:"seed"`
	Evaluations int                    `json:"evaluations"`
	Distinct    int                    `json:"distinct_nontrivial"`
	Rule        string                 `json:"rule"`
	Samples     []string               `json:"samples"`
	Dist        map[string]int         `json:"generator_distribution"`
	Findings    []Finding              `json:"findings"`
	ModelOps    int                    `json:"model_ops"`
	Notes       []string               `json:"notes"`
	Extra       map[string]interface{} `json:"extra"`
	WallS       float64                `json:"wall_s"`
}

func (c *Ctx) Result(wall float64) Result {
	sort.Slice(c.Findings, func(i, j int) bool { return c.Findings[i].Sig < c.Findings[j].Sig })
	n := 0
	if c.Model != nil {
		n = c.Model.n
	}
	return Result{Prop: c.Prop, Tier: c.Tier, Seed: c.Seed, Evaluations: c.Evals, Distinct: len(c.distinct), Rule: c.Rule,
		Samples: c.Samples, Dist: c.Dist, Findings: c.Findings, ModelOps: n, Notes: c.Notes, Extra: c.Extra, WallS: wall}
}

func hx(b []byte) string {
	if len(b) == 0 {
		return "-"
	}
	return hex.EncodeToString(b)
}

func writeJSON(path string, v interface{}) error {
	b, err := json.MarshalIndent(v, "", " ")
	if err != nil {
		return err
	}
	return os.WriteFile(path, b, 0o644)
}
