package main

import (
	"bytes"
	"encoding/json"
	"fmt"
	"io"
	"log"
	"net/http"
	"net/http/httptest"
	"os"
	"strings"
	"sync"
	"time"

	"github.com/janelia-flyem/dvid/datastore"
	"github.com/janelia-flyem/dvid/dvid"
	"github.com/janelia-flyem/dvid/server"

	_ "github.com/janelia-flyem/dvid/datatype/annotation"
	_ "github.com/janelia-flyem/dvid/datatype/imageblk"
	_ "github.com/janelia-flyem/dvid/datatype/keyvalue"
	_ "github.com/janelia-flyem/dvid/datatype/labelmap"
	_ "github.com/janelia-flyem/dvid/datatype/labelsz"
	_ "github.com/janelia-flyem/dvid/datatype/neuronjson"
	_ "github.com/janelia-flyem/dvid/datatype/roi"
)

// In-process server on a fresh Badger test store.  One at a time (datastore.OpenTest holds a lock).
var openMu sync.Mutex

func quietLogs() {
	if os.Getenv("VERIF_VERBOSE") == "" {
		log.SetOutput(io.Discard)
		dvid.SetLogMode(dvid.SilentMode)
	}
}

func OpenServer() {
	openMu.Lock()
	quietLogs()
	datastore.OpenTest()
}

func CloseServer() {
	datastore.CloseTest()
	openMu.Unlock()
}

type Resp struct {
	Code int
	Body []byte
}

func (r Resp) OK() bool { return r.Code == http.StatusOK }
func (r Resp) String() string {
	b := string(r.Body)
	if len(b) > 200 {
		b = b[:200] + "…"
	}
	return fmt.Sprintf("%d %s", r.Code, strings.TrimSpace(b))
}

// panicSeen counts responses that carried a recovered panic (C20 feeds on this from every workload).
var panicSeen []string
var panicMu sync.Mutex

func Do(method, url string, body []byte) Resp {
	var rd io.Reader = http.NoBody // a real server never hands a nil Body to a handler
	if body != nil {
		rd = bytes.NewReader(body)
	}
	req, err := http.NewRequest(method, url, rd)
	if err != nil {
		return Resp{Code: -1, Body: []byte(err.Error())}
	}
	w := httptest.NewRecorder()
	func() {
		defer func() {
			if e := recover(); e != nil {
				w.Code = 599
				w.Body.WriteString(fmt.Sprintf("PANIC escaped handler: %v", e))
			}
		}()
		server.ServeSingleHTTP(w, req)
	}()
	r := Resp{Code: w.Code, Body: w.Body.Bytes()}
	if w.Code >= 500 && (bytes.Contains(r.Body, []byte("anic")) || w.Code == 599) {
		panicMu.Lock()
		panicSeen = append(panicSeen, fmt.Sprintf("%s %s -> %s", method, url, r.String()))
		panicMu.Unlock()
	}
	return r
}

func api(path string) string { return "http://localhost/api/" + strings.TrimPrefix(path, "/") }

func Get(path string) Resp                { return Do("GET", api(path), nil) }
func Post(path string, b []byte) Resp     { return Do("POST", api(path), b) }
func Delete(path string) Resp             { return Do("DELETE", api(path), nil) }
func PostJSON(path string, v interface{}) Resp {
	b, _ := json.Marshal(v)
	return Do("POST", api(path), b)
}

// NewRepo creates a repo through the HTTP API and returns its root uuid.
func NewRepo() string {
	r := PostJSON("repos", map[string]string{"alias": "verif", "description": "verif"})
	var m map[string]string
	json.Unmarshal(r.Body, &m)
	return m["root"]
}

func NewInstance(uuid, typ, name string, extra map[string]string) Resp {
	m := map[string]string{"typename": typ, "dataname": name}
	for k, v := range extra {
		m[k] = v
	}
	return PostJSON("repo/"+uuid+"/instance", m)
}

func Commit(uuid string) Resp {
	return PostJSON("node/"+uuid+"/commit", map[string]string{"note": "c"})
}

func NewVersion(uuid string) (string, Resp) {
	r := PostJSON("node/"+uuid+"/newversion", map[string]string{"note": "n"})
	var m map[string]string
	json.Unmarshal(r.Body, &m)
	return m["child"], r
}

func Branch(uuid, branch string) (string, Resp) {
	r := PostJSON("node/"+uuid+"/branch", map[string]string{"branch": branch, "note": "b"})
	var m map[string]string
	json.Unmarshal(r.Body, &m)
	return m["child"], r
}

func Merge(parents []string) (string, Resp) {
	r := PostJSON("repo/"+parents[0]+"/merge", map[string]interface{}{"mergeType": "conflict-free", "parents": parents, "note": "m"})
	var m map[string]string
	json.Unmarshal(r.Body, &m)
	return m["child"], r
}

// waitInstanceDeleted polls repo info until the (asynchronous) instance deletion has finished.
func waitInstanceDeleted(uuid, name string) bool {
	for i := 0; i < 500; i++ {
		r := Get("repo/" + uuid + "/info")
		var m struct {
			DataInstances map[string]json.RawMessage
		}
		json.Unmarshal(r.Body, &m)
		if _, found := m.DataInstances[name]; !found {
			return true
		}
		time.Sleep(10 * time.Millisecond)
	}
	return false
}

// settleInproc waits for background processing of the world's labelmap / annotation instances.
func settleInproc(w *World) {
	for _, n := range []string{"lm", "ann"} {
		if (n == "lm" && w.hasLM) || (n == "ann" && w.hasAnn) {
			datastore.BlockOnUpdating(dvid.UUID(w.root), dvid.InstanceName(n))
		}
	}
}
